(* Tie/ServerTie.v -- handle_http_conn_once and the loop of handle_http_conn (src/http_conn.rs) as TRANSLATED statement
   by statement on this run (Generated/SourceParams.v: src_once, src_conn_loop), interpreted over the connection
   machine of Model/Conn.v with the handler, the reader, the serialiser and the error conversion as Section variables,
   are Model/Server.v's handle_once and conn_loop -- for every connection state, input, handler and permit history. *)
From Coq Require Import List NArith Bool.
From SV Require Import Base.Bytes Base.IO Base.SrcAst Model.Conn Model.Server Model.ConnInst Generated.SourceParams.
Import ListNotations.
Open Scope N_scope.

Lemma conn_loop_translated : src_problems_conn_loop = 0%nat.
Proof. reflexivity. Qed.

(* what HttpServerBuilder::spawn (src/lib.rs) turns a panicking handler into, as read on this run, is the answer the
   concrete instance (and the driver's scripted handler) uses *)
Lemma panic_answer_tie : src_panic_status = panic_code /\ src_panic_text = panic_text /\ src_problems_spawn = 0%nat.
Proof. repeat split. Qed.

Definition herr_of (e : once_err) : herr :=
  match e with
  | OEDisconnected => Disconnected
  | OEAlreadyGotBody => AlreadyGotBody
  | OECacheDirNotConfigured => CacheDirNotConfigured
  | OEOther => ModelPanic
  end.

Section Interp.
Variable payload : Type.
Variable resp : Type.
Variable read_req : cin -> (herr + (payload * reqmeta)) * cin.
Variable resp_code : resp -> N.
Variable write_out : resp -> bool -> option herr * bytes.
Variable resp_continue : resp.
Variable fix16 : bool.
Variable error_response : herr -> resp.
Variable handler : payload -> bview -> hres resp.
Variable small_body_len : N.
Variable cache_dir : option bool.
Variable revoked : nat -> bool.

Notation conn := (Conn.conn).
Notation hres := (hres resp).
Notation invocation := (invocation payload resp).
Notation once_out := (once_out payload resp).
Notation mk_once := (mk_once payload resp).
Notation mk_inv := (mk_inv payload resp).
Notation rd_request := (read_request payload read_req).
Notation rd_vec := (read_body_to_vec resp resp_code write_out resp_continue fix16).
Notation rd_file := (read_body_to_file resp resp_code write_out resp_continue fix16).
Notation wr_response := (write_response resp resp_code write_out).

(* the local variables of handle_http_conn_once *)
Record ost := mk_ost {
  o_conn : conn;
  o_req : option payload;          (* req (head part) *)
  o_view : bview;                  (* req.body *)
  o_first : option resp;           (* first_response *)
  o_ans : option hres;             (* response *)
  o_log : list invocation;
  o_files : list fevent
}.
Inductive flow := Ret (o : once_out) | Go (s : ost).
Definition stuck (s : ost) : flow := Ret (mk_once (Some ModelPanic) (o_conn s) (o_log s) (o_files s)).

(* read_request fills req.body from the read state it leaves behind *)
Definition view_of (c : conn) : bview :=
  match c_rs c with
  | RS_Body (Some len) _ _ _ => BV_PendingKnown len
  | RS_Body None _ _ _ => BV_PendingUnknown
  | _ => BV_Empty
  end.

Definition kind_matches (p : kind_pat) (a : hres) : bool :=
  match p, a with
  | KPNormal, HNormal _ _ | KPDrop, HDrop _ | KPGetBody, HGetBody _ _ => true
  | _, _ => false
  end.
Fixpoint pick_kind (arms : list (kind_pat * kind_act)) (a : hres) : option kind_act :=
  match arms with
  | [] => None
  | (p, act) :: rest => if kind_matches p a then Some act else pick_kind rest a
  end.

Definition eval_kind_act (act : kind_act) (a : hres) (s : ost) : flow :=
  match act with
  | KANothing => Go s
  | KAKeepFirst =>
      match a with
      | HNormal _ r => Go (mk_ost (o_conn s) (o_req s) (o_view s) (Some r) (o_ans s) (o_log s) (o_files s))
      | _ => stuck s
      end
  | KAReturnErr e => Ret (mk_once (Some (herr_of e)) (o_conn s) (o_log s) (o_files s))
  | KAReadToFile e =>
      match a with
      | HGetBody _ max_len =>
          match cache_dir with
          | None => Ret (mk_once (Some (herr_of e)) (o_conn s) (o_log s) (o_files s))       (* ok_or(e)? *)
          | Some dir_ok =>
              match rd_file (o_conn s) dir_ok max_len with
              | (BR_File b, c2) =>
                  Go (mk_ost c2 (o_req s) (BV_File b) (o_first s) (o_ans s) (o_log s) (o_files s ++ [FCreate; FHandOver]))
              | (BR_Vec b, c2) => Ret (mk_once (Some BodyNotAvailable) c2 (o_log s) (o_files s))
              | (BR_Err e', c2) =>
                  Ret (mk_once (Some e') c2 (o_log s) (o_files s ++ file_events (o_conn s) dir_ok max_len (BR_Err e')))
              end
          end
      | _ => stuck s
      end
  end.

Definition body_matches (p : body_pat) (v : bview) : bool :=
  match p, v with
  | BPKnownLe, BV_PendingKnown len => len <=? small_body_len
  | BPKnownLt, BV_PendingKnown len => len <? small_body_len
  | BPPending, (BV_PendingKnown _ | BV_PendingUnknown) => true
  | BPWild, _ => true
  | _, _ => false
  end.
Fixpoint pick_body (arms : list (body_pat * body_act)) (v : bview) : option body_act :=
  match arms with
  | [] => None
  | (p, act) :: rest => if body_matches p v then Some act else pick_body rest v
  end.

Definition eval_body_act (act : body_act) (s : ost) : flow :=
  match act with
  | BANothing => Go s
  | BAReadToVec =>
      match rd_vec (o_conn s) with
      | (BR_Err e, c2) => Ret (mk_once (Some e) c2 (o_log s) (o_files s))
      | (BR_Vec b, c2) => Go (mk_ost c2 (o_req s) (BV_Mem b) (o_first s) (o_ans s) (o_log s) (o_files s))
      | (BR_File b, c2) => Ret (mk_once (Some BodyNotAvailable) c2 (o_log s) (o_files s))
      end
  | BAAskHandler arms =>
      match o_req s with
      | None => stuck s
      | Some p =>
          let a := handler p (o_view s) in       (* the handler runs on clones: req is still there afterwards *)
          let s1 := mk_ost (o_conn s) (o_req s) (o_view s) (o_first s) (o_ans s) (o_log s ++ [mk_inv p (o_view s) a]) (o_files s) in
          match pick_kind arms a with
          | None => stuck s1
          | Some act => eval_kind_act act a s1
          end
      end
  end.

Definition eval_once_stmt (st : once_stmt) (s : ost) : flow :=
  match st with
  | OSReadRequest =>
      match rd_request (o_conn s) with
      | (inl e, c1) => Ret (mk_once (Some e) c1 (o_log s) (o_files s))
      | (inr p, c1) => Go (mk_ost c1 (Some p) (view_of c1) (o_first s) (o_ans s) (o_log s) (o_files s))
      end
  | OSInitFirst => Go (mk_ost (o_conn s) (o_req s) (o_view s) None (o_ans s) (o_log s) (o_files s))
  | OSMatchBody arms =>
      match pick_body arms (o_view s) with
      | None => stuck s
      | Some act => eval_body_act act s
      end
  | OSAnswer =>
      match o_first s with
      | Some r => Go (mk_ost (o_conn s) (o_req s) (o_view s) None (Some (HNormal _ r)) (o_log s) (o_files s))
      | None =>
          match o_req s with
          | None => stuck s
          | Some p =>
              let a := handler p (o_view s) in   (* req moves into the handler; a temp file it holds goes with it *)
              let dropped := match o_view s with BV_File _ => [FDropWithRequest] | _ => [] end in
              Go (mk_ost (o_conn s) None (o_view s) None (Some a) (o_log s ++ [mk_inv p (o_view s) a]) (o_files s ++ dropped))
          end
      end
  | OSMatchKind arms =>
      match o_ans s with
      | None => stuck s
      | Some a =>
          match pick_kind arms a with
          | Some KANothing => Go s
          | Some (KAReturnErr e) => Ret (mk_once (Some (herr_of e)) (o_conn s) (o_log s) (o_files s))
          | _ => stuck s
          end
      end
  | OSWriteTail on4 on5 e =>
      match o_ans s with
      | Some (HNormal _ r) =>
          let code := resp_code r in
          if (on4 && (code / 100 =? 4)) || (on5 && (code / 100 =? 5))
          then let '(_, c') := wr_response (o_conn s) r in Ret (mk_once (Some (herr_of e)) c' (o_log s) (o_files s))
          else let '(res, c') := wr_response (o_conn s) r in Ret (mk_once res c' (o_log s) (o_files s))
      | _ => stuck s
      end
  end.

Fixpoint eval_once_stmts (l : list once_stmt) (s : ost) : once_out :=
  match l with
  | [] => mk_once (Some ModelPanic) (o_conn s) (o_log s) (o_files s)    (* a function body must end in a value *)
  | st :: rest => match eval_once_stmt st s with Ret o => o | Go s' => eval_once_stmts rest s' end
  end.
Definition eval_once (l : list once_stmt) (c : conn) : once_out :=
  eval_once_stmts l (mk_ost c None BV_Empty None None [] []).

Notation once := (handle_once payload resp read_req resp_code write_out resp_continue fix16 handler true small_body_len cache_dir).

Theorem handle_once_tie : forall c, eval_once src_once c = once c.
Proof.
  intros c. unfold eval_once, src_once, handle_once.
  cbn [eval_once_stmts eval_once_stmt o_conn o_req o_view o_first o_ans o_log o_files].
  destruct (rd_request c) as [[e|p] c1]; [reflexivity|].
  cbn [eval_once_stmts eval_once_stmt o_conn o_req o_view o_first o_ans o_log o_files pick_body].
  unfold view_of.
  destruct (c_rs c1) as [|[len|] ex ch gz|].
  - (* no body *) cbn. unfold finish. destruct (handler p BV_Empty) as [r| |m]; cbn; try reflexivity.
    unfold is_4xx_5xx. destruct ((resp_code r / 100 =? 4) || (resp_code r / 100 =? 5));
      destruct (wr_response c1 r); reflexivity.
  - (* known length *) cbn [body_matches]. destruct (len <=? small_body_len).
    + cbn [eval_body_act o_conn o_req o_view o_first o_ans o_log o_files].
      destruct (rd_vec c1) as [[e|b|b] c2]; try reflexivity.
      cbn. unfold finish. destruct (handler p (BV_Mem b)) as [r| |m]; cbn; try reflexivity.
      unfold is_4xx_5xx. destruct ((resp_code r / 100 =? 4) || (resp_code r / 100 =? 5));
        destruct (wr_response c2 r); reflexivity.
    + cbn [eval_body_act o_conn o_req o_view o_first o_ans o_log o_files]. unfold pending.
      destruct (handler p (BV_PendingKnown len)) as [r| |m] eqn:Hh; cbn [pick_kind kind_matches eval_kind_act].
      * cbn. unfold finish, is_4xx_5xx. destruct ((resp_code r / 100 =? 4) || (resp_code r / 100 =? 5));
          destruct (wr_response c1 r); reflexivity.
      * reflexivity.
      * cbn [o_conn o_req o_view o_first o_ans o_log o_files herr_of]. destruct cache_dir as [dir_ok|]; [|reflexivity].
        destruct (rd_file c1 dir_ok m) as [[e|b|b] c2]; try reflexivity.
        cbn. unfold finish. destruct (handler p (BV_File b)) as [r| |m']; cbn; try reflexivity.
        unfold is_4xx_5xx. destruct ((resp_code r / 100 =? 4) || (resp_code r / 100 =? 5));
          destruct (wr_response c2 r); reflexivity.
  - (* unknown length *) cbn [body_matches]. cbn [eval_body_act o_conn o_req o_view o_first o_ans o_log o_files]. unfold pending.
    destruct (handler p BV_PendingUnknown) as [r| |m] eqn:Hh; cbn [pick_kind kind_matches eval_kind_act].
    + cbn. unfold finish, is_4xx_5xx. destruct ((resp_code r / 100 =? 4) || (resp_code r / 100 =? 5));
        destruct (wr_response c1 r); reflexivity.
    + reflexivity.
    + cbn [o_conn o_req o_view o_first o_ans o_log o_files herr_of]. destruct cache_dir as [dir_ok|]; [|reflexivity].
      destruct (rd_file c1 dir_ok m) as [[e|b|b] c2]; try reflexivity.
      cbn. unfold finish. destruct (handler p (BV_File b)) as [r| |m']; cbn; try reflexivity.
      unfold is_4xx_5xx. destruct ((resp_code r / 100 =? 4) || (resp_code r / 100 =? 5));
        destruct (wr_response c2 r); reflexivity.
  - (* read side shut down *) cbn. unfold finish. destruct (handler p BV_Empty) as [r| |m]; cbn; try reflexivity.
    unfold is_4xx_5xx. destruct ((resp_code r / 100 =? 4) || (resp_code r / 100 =? 5));
      destruct (wr_response c1 r); reflexivity.
Qed.

(* ---- the loop of handle_http_conn ---- *)
Record lst := mk_lst { l_conn : conn; l_res : option (option herr); l_log : list invocation; l_files : list fevent }.
Inductive lflow := LReturn (s : lst) | LGo (s : lst).

Fixpoint eval_err_acts (acts : list loop_err_act) (e : herr) (s : lst) : lflow :=
  match acts with
  | [] => LGo s
  | LAPrint :: rest => eval_err_acts rest e s                      (* println!: not part of the connection's behaviour *)
  | LAWriteErrorResponse :: rest =>
      let '(_, c') := wr_response (l_conn s) (error_response e) in
      eval_err_acts rest e (mk_lst c' (l_res s) (l_log s) (l_files s))
  | LAShutdownWrite :: rest => eval_err_acts rest e (mk_lst (shutdown_write (l_conn s)) (l_res s) (l_log s) (l_files s))
  | LAReturn :: _ => LReturn s
  end.

Definition eval_loop_stmt (once_body : list once_stmt) (st : loop_stmt) (s : lst) : lflow :=
  match st with
  | LSReturnUnlessReady => if negb (is_ready (l_conn s)) then LReturn s else LGo s
  | LSOnce =>
      let o := eval_once once_body (l_conn s) in
      LGo (mk_lst (oo_conn _ _ o) (Some (oo_res _ _ o)) (l_log s ++ oo_log _ _ o) (l_files s ++ oo_files _ _ o))
  | LSMatchResult acts =>
      match l_res s with
      | None => LReturn s            (* `result` not yet bound: no such program *)
      | Some None => LGo s
      | Some (Some Disconnected) => LReturn s
      | Some (Some e) => eval_err_acts acts e s
      end
  end.
Fixpoint eval_loop_body (once_body : list once_stmt) (l : list loop_stmt) (s : lst) : lflow :=
  match l with
  | [] => LGo s
  | st :: rest => match eval_loop_stmt once_body st s with LReturn s' => LReturn s' | LGo s' => eval_loop_body once_body rest s' end
  end.

Notation loop_out := (loop_out payload resp).
Notation mk_loop := (mk_loop payload resp).
(* `while !permit.is_revoked() { body }`, one unit of fuel per iteration *)
Fixpoint eval_loop (once_body : list once_stmt) (body : list loop_stmt) (fuel k : nat) (c : conn)
         (log : list invocation) (files : list fevent) : loop_out :=
  match fuel with
  | O => mk_loop c log files k true
  | S f =>
      if revoked k then mk_loop c log files k false
      else match eval_loop_body once_body body (mk_lst c None log files) with
           | LReturn s =>
               (* the iteration counter of the model counts an iteration once handle_http_conn_once was called *)
               mk_loop (l_conn s) (l_log s) (l_files s) (match l_res s with None => k | Some _ => S k end) false
           | LGo s => eval_loop once_body body f (S k) (l_conn s) (l_log s) (l_files s)
           end
  end.

Notation loop := (conn_loop payload resp read_req resp_code write_out resp_continue fix16 error_response handler true small_body_len cache_dir revoked).

Theorem conn_loop_tie : forall fuel k c log files,
  eval_loop src_once src_conn_loop fuel k c log files = loop fuel k c log files.
Proof.
  induction fuel as [|f IH]; intros k c log files; [reflexivity|].
  cbn [eval_loop conn_loop]. destruct (revoked k); [reflexivity|].
  unfold src_conn_loop. cbn [eval_loop_body eval_loop_stmt l_conn l_res l_log l_files].
  destruct (is_ready c); cbn [negb]; [|reflexivity].
  cbn [eval_loop_body eval_loop_stmt l_conn l_res l_log l_files].
  rewrite handle_once_tie.
  destruct (oo_res _ _ (once c)) as [e|]; [|cbn [eval_loop_body]; apply IH].
  destruct e; cbn [eval_err_acts l_conn l_res l_log l_files]; try reflexivity;
    match goal with |- context [wr_response ?a ?b] => destruct (wr_response a b) end; reflexivity.
Qed.
End Interp.
