(* Tie/FmtEval.v -- meaning of a translated format string (Base/SrcAst.v: fmt_seg): literal text is copied, an
   argument {name} / {name:0w} is looked up in an environment that knows how each named value prints at that
   width; an unknown name makes the whole evaluation None. *)
From Coq Require Import List NArith String Ascii.
From SV Require Import Base.Bytes Base.SrcAst.
Import ListNotations.

Fixpoint eval_fmt (env : list N -> N -> option (list N)) (segs : list fmt_seg) : option (list N) :=
  match segs with
  | [] => Some []
  | FLit t :: rest => match eval_fmt env rest with Some r => Some (t ++ r) | None => None end
  | FArg name w :: rest =>
      match env name w, eval_fmt env rest with
      | Some a, Some r => Some (a ++ r)
      | _, _ => None
      end
  end.

(* a source text written as a Coq string literal, as the list of its byte values *)
Fixpoint bytes_of_string (s : string) : list N :=
  match s with
  | EmptyString => []
  | String a r => N_of_ascii a :: bytes_of_string r
  end.
