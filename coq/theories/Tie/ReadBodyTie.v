(* Tie/ReadBodyTie.v -- HttpConn::read_body_to_vec and read_body_to_file (src/http_conn.rs) as TRANSLATED on this run
   (Generated/SourceParams.v: the arms of `match self.read_state` in source order, each an error or a statement list),
   interpreted over the connection machine of Model/Conn.v (first matching arm; locals `result`, the state fields),
   are the machine's two body readers (with the repair of D16 present) for every connection state, input, limit and
   cache-directory condition.  What the called functions do with the bytes (read_http_body_to_vec / _to_file,
   read_http_unsized_body_to_vec / _to_file: read_exact, read_to_end, copy_unknown, the file creation that can fail)
   stays the model's; usize::try_from(u64) cannot fail on the 64-bit targets the checks run on. *)
From Coq Require Import List NArith Bool.
From SV Require Import Base.Bytes Base.IO Base.SrcAst Model.Conn Generated.SourceParams.
Import ListNotations.
Open Scope N_scope.

Lemma read_body_translated : src_problems_read_body = 0%nat.
Proof. reflexivity. Qed.

Definition herr_of_rb (e : rb_err) : herr :=
  match e with
  | REBodyNotAvailable => BodyNotAvailable
  | REUnsupportedTransferEncoding => UnsupportedTransferEncoding
  | REBodyTooLong => BodyTooLong
  | REDisconnected => Disconnected
  | REInvalidContentLength => InvalidContentLength
  | REOther => ModelPanic
  end.

Section Interp.
Variable resp : Type.
Variable resp_code : resp -> N.
Variable write_out : resp -> bool -> option herr * bytes.
Variable resp_continue : resp.

Notation conn := (Conn.conn).
Notation wr_continue := (write_http_continue resp resp_code write_out resp_continue).

Definition pat_matches (p : rb_pat) (max_len : option N) (rs : read_state) : bool :=
  match p, rs with
  | RPHead, RS_Head => true
  | RPShutdown, RS_Shutdown => true
  | RPChunkedOrGzip, RS_Body _ _ chunked gzip => chunked || gzip
  | RPKnownOverMax, RS_Body (Some n) _ false false => match max_len with Some m => m <? n | None => false end
  | RPKnown, RS_Body (Some _) _ false false => true
  | RPUnknown, RS_Body None _ false false => true
  | _, _ => false
  end.
Fixpoint pick_rb (arms : list (rb_pat * rb_arm)) (max_len : option N) (rs : read_state) : option rb_arm :=
  match arms with
  | [] => None
  | (p, a) :: rest => if pat_matches p max_len rs then Some a else pick_rb rest max_len rs
  end.

Definition with_rs (c : conn) (rs : read_state) : conn := mk_conn rs (c_ws c) (c_in c) (c_wire c) (c_wshut c).
Definition with_in (c : conn) (i : cin) : conn := mk_conn (c_rs c) (c_ws c) i (c_wire c) (c_wshut c).
Definition is_err (r : body_res) : bool := match r with BR_Err _ => true | _ => false end.

(* the statements of an arm; [len] / [expect] are bound by the arm's pattern, [result] by `let result = ..` *)
Fixpoint eval_rb_stmts (l : list rb_stmt) (len : option N) (expect : bool) (dir_ok : bool) (max_len : N)
         (result : option body_res) (c : conn) : body_res * conn :=
  match l with
  | [] => (BR_Err ModelPanic, c)
  | RSTryFromLen _ :: rest => eval_rb_stmts rest len expect dir_ok max_len result c
  | RSContinueIfExpect :: rest =>
      if expect then
        match wr_continue c with
        | (Some e, c1) => (BR_Err e, c1)
        | (None, c1) => eval_rb_stmts rest len expect dir_ok max_len result c1
        end
      else eval_rb_stmts rest len expect dir_ok max_len result c
  | RSSetState head :: rest => eval_rb_stmts rest len expect dir_ok max_len result (with_rs c (if head then RS_Head else RS_Shutdown))
  | RSReadKnown to_file :: rest =>
      match len with
      | Some n =>
          if to_file && negb dir_ok then eval_rb_stmts rest len expect dir_ok max_len (Some (BR_Err ErrorSavingFile)) c
          else
            let '(r, i') := read_exact n (c_in c) in
            let res := match r with Some b => if to_file then BR_File b else BR_Vec b | None => BR_Err Truncated end in
            eval_rb_stmts rest len expect dir_ok max_len (Some res) (with_in c i')
      | None => (BR_Err ModelPanic, c)
      end
  | RSShutdownIfErr :: rest =>
      match result with
      | Some r => eval_rb_stmts rest len expect dir_ok max_len result (if is_err r then with_rs c RS_Shutdown else c)
      | None => (BR_Err ModelPanic, c)
      end
  | RSResult :: _ => match result with Some r => (r, c) | None => (BR_Err ModelPanic, c) end
  | RSReadUnknown to_file :: _ =>
      if to_file then
        if negb dir_ok then (BR_Err ErrorSavingFile, c)
        else let '(r, i') := copy_unknown (sat_succ max_len) max_len (c_in c) in (r, with_in c i')
      else
        let '(r, i') := read_to_end (c_in c) in
        (match r with Some b => BR_Vec b | None => BR_Err Truncated end, with_in c i')
  end.

Definition eval_read_body (arms : list (rb_pat * rb_arm)) (max_len : option N) (dir_ok : bool) (c : conn) : body_res * conn :=
  match pick_rb arms max_len (c_rs c) with
  | None => (BR_Err ModelPanic, c)
  | Some (RAErr e) => (BR_Err (herr_of_rb e), c)
  | Some (RABody stmts) =>
      match c_rs c with
      | RS_Body len expect _ _ =>
          eval_rb_stmts stmts len expect dir_ok (match max_len with Some m => m | None => 0 end) None c
      | _ => (BR_Err ModelPanic, c)
      end
  end.

Notation rd_vec := (read_body_to_vec resp resp_code write_out resp_continue true).
Notation rd_file := (read_body_to_file resp resp_code write_out resp_continue true).

Theorem read_body_to_vec_tie : forall c, eval_read_body src_read_body_to_vec None true c = rd_vec c.
Proof.
  intros c. unfold eval_read_body, src_read_body_to_vec, read_body_to_vec.
  destruct (c_rs c) as [|[n|] expect chunked gzip|] eqn:Hrs; cbn [pick_rb pat_matches]; try reflexivity.
  - destruct chunked, gzip; cbn [orb herr_of_rb eval_rb_stmts]; try reflexivity.
    unfold maybe_continue. destruct expect.
    + destruct (wr_continue c) as [[e|] c1]; [reflexivity|].
      cbn [eval_rb_stmts andb]. unfold with_rs, with_in, set_rs, rs_after. cbn.
      destruct (read_exact n (c_in c1)) as [[b|] i']; reflexivity.
    + cbn [eval_rb_stmts andb]. unfold with_rs, with_in, set_rs, rs_after. cbn.
      destruct (read_exact n (c_in c)) as [[b|] i']; reflexivity.
  - destruct chunked, gzip; cbn [orb herr_of_rb eval_rb_stmts]; try reflexivity.
    unfold maybe_continue. destruct expect.
    + destruct (wr_continue c) as [[e|] c1]; [reflexivity|].
      cbn [eval_rb_stmts]. unfold with_rs, with_in, set_rs. cbn.
      destruct (read_to_end (c_in c1)) as [[b|] i']; reflexivity.
    + cbn [eval_rb_stmts]. unfold with_rs, with_in, set_rs. cbn.
      destruct (read_to_end (c_in c)) as [[b|] i']; reflexivity.
Qed.

Theorem read_body_to_file_tie : forall c dir_ok max_len,
  eval_read_body src_read_body_to_file (Some max_len) dir_ok c = rd_file c dir_ok max_len.
Proof.
  intros c dir_ok max_len. unfold eval_read_body, src_read_body_to_file, read_body_to_file.
  destruct (c_rs c) as [|[n|] expect chunked gzip|] eqn:Hrs; cbn [pick_rb pat_matches]; try reflexivity.
  - destruct chunked, gzip; cbn [orb herr_of_rb]; try reflexivity.
    destruct (max_len <? n); cbn [herr_of_rb]; [reflexivity|].
    unfold maybe_continue. destruct expect.
    + cbn [eval_rb_stmts]. destruct (wr_continue c) as [[e|] c1]; [reflexivity|].
      cbn [eval_rb_stmts andb]. destruct dir_ok; cbn [negb eval_rb_stmts is_err].
      * unfold with_rs, with_in, set_rs, rs_after. cbn. destruct (read_exact n (c_in c1)) as [[b|] i']; reflexivity.
      * reflexivity.
    + cbn [eval_rb_stmts andb]. destruct dir_ok; cbn [negb eval_rb_stmts is_err].
      * unfold with_rs, with_in, set_rs, rs_after. cbn. destruct (read_exact n (c_in c)) as [[b|] i']; reflexivity.
      * reflexivity.
  - destruct chunked, gzip; cbn [orb herr_of_rb]; try reflexivity.
    unfold maybe_continue. destruct expect.
    + cbn [eval_rb_stmts]. destruct (wr_continue c) as [[e|] c1]; [reflexivity|].
      cbn [eval_rb_stmts]. destruct dir_ok; cbn [negb]; [|reflexivity].
      unfold with_rs, with_in, set_rs. cbn. destruct (copy_unknown (sat_succ max_len) max_len (c_in c1)) as [r i']; reflexivity.
    + cbn [eval_rb_stmts]. destruct dir_ok; cbn [negb]; [|reflexivity].
      unfold with_rs, with_in, set_rs. cbn. destruct (copy_unknown (sat_succ max_len) max_len (c_in c)) as [r i']; reflexivity.
Qed.
End Interp.
