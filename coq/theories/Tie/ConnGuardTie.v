(* Tie/ConnGuardTie.v -- the leading state guards of HttpConn::read_request / write_http_continue /
   write_response as TRANSLATED from src/http_conn.rs on this run (match arms in source order), evaluated on a
   connection state, are the misuse errors the documented contract (Spec/ConnSpec.v: guard_error) prescribes --
   for every state. *)
From Coq Require Import List NArith Bool.
From SV Require Import Base.Bytes Base.IO Base.SrcAst Model.Conn Spec.ConnSpec Generated.SourceParams.
Import ListNotations.

Lemma conn_guards_translated : src_problems_conn_guards = 0%nat.
Proof. reflexivity. Qed.

Definition err_of_name (n : list N) : option herr :=
  if beq n [82;101;115;112;111;110;115;101;78;111;116;83;101;110;116] then Some ResponseNotSent            (* "ResponseNotSent" *)
  else if beq n [68;105;115;99;111;110;110;101;99;116;101;100] then Some Disconnected                      (* "Disconnected" *)
  else if beq n [66;111;100;121;78;111;116;82;101;97;100] then Some BodyNotRead                            (* "BodyNotRead" *)
  else if beq n [82;101;115;112;111;110;115;101;65;108;114;101;97;100;121;83;101;110;116] then Some ResponseAlreadySent  (* "ResponseAlreadySent" *)
  else None.
Definition variant_beq (a b : state_variant) : bool :=
  match a, b with VNone, VNone | VResponse, VResponse | VShutdown, VShutdown | VHead, VHead | VBody, VBody => true | _, _ => false end.
Definition field_variant (f : state_field) (c : conn) : state_variant :=
  match f with
  | FWriteState => match c_ws c with WS_None => VNone | WS_Response => VResponse | WS_Shutdown => VShutdown end
  | FReadState => match c_rs c with RS_Head => VHead | RS_Body _ _ _ _ => VBody | RS_Shutdown => VShutdown end
  end.
Fixpoint arm_lookup (v : state_variant) (arms : list (state_variant * option (list N))) : option (option (list N)) :=
  match arms with [] => None | (w, r) :: t => if variant_beq v w then Some r else arm_lookup v t end.
(* Some (Some e) = the guards return Err(e); Some None = they let the call proceed; None = untranslatable *)
Fixpoint eval_guards (ts : list guard_table) (c : conn) : option (option herr) :=
  match ts with
  | [] => Some None
  | (f, arms) :: t =>
      match arm_lookup (field_variant f c) arms with
      | None => None
      | Some None => eval_guards t c
      | Some (Some name) => match err_of_name name with Some e => Some (Some e) | None => None end
      end
  end.

Section G.
Variable resp : Type.
Theorem read_request_guards_tie :
  forall c, eval_guards src_guards_read_request c = Some (guard_error resp c (@OReadRequest resp)).
Proof.
  intros [rs ws i w sh]. unfold guard_error, wside_of, rside_of. cbn [c_ws c_rs].
  destruct ws; destruct rs as [|l ex ch gz|]; reflexivity.
Qed.
Theorem write_continue_guards_tie :
  forall c, eval_guards src_guards_write_http_continue c = Some (guard_error resp c (@OContinue resp)).
Proof.
  intros [rs ws i w sh]. unfold guard_error, send_guard, wside_of. cbn [c_ws c_rs]. destruct ws; reflexivity.
Qed.
Theorem write_response_guards_tie :
  forall c r, eval_guards src_guards_write_response c = Some (guard_error resp c (OWrite r)).
Proof.
  intros [rs ws i w sh] r. unfold guard_error, send_guard, wside_of. cbn [c_ws c_rs]. destruct ws; reflexivity.
Qed.
End G.
