(* Tie/JsonlBindsText.v -- the let bindings LogEvent::write_jsonl (src/log/logger.rs) is expected to have in front of
   its format strings, as (name, expression text without blanks); compared with what the translator read
   (Tie/JsonTie.v: jsonl_binds_tie). *)
From Coq Require Import List NArith String.
From SV Require Import Tie.FmtEval.
Import ListNotations.
Open Scope string_scope.

Definition expected_jsonl_binds : list (list N * list N) :=
  map (fun p => (bytes_of_string (fst p), bytes_of_string (snd p)))
  [ ("time_ns", "self.time.duration_since(SystemTime::UNIX_EPOCH).unwrap_or_default().as_nanos()");
    ("dt", "self.time.to_datetime()");
    ("year", "dt.year"); ("month", "dt.month"); ("day", "dt.day");
    ("hour", "dt.hour"); ("min", "dt.min"); ("sec", "dt.sec");
    ("level", "self.level"); ("tags", "&self.tags") ].
