(* Tie/AcceptTie.v -- accept_loop (src/accept.rs) as TRANSLATED statement by statement on this run
   (Generated/SourceParams.v: src_accept_loop), given a small-step semantics whose pause points are the await points
   (the token-or-permit wait, the accept-or-permit wait, the sleep) and the window before `if permit.is_revoked()`,
   makes exactly the accept-task transitions of Model/Accept.v (Loop, IncomingOk, IncomingErr; fixed = true: the
   current tree) -- for every pool size and every state.  The program counter of the model names the position in the
   translated body: WaitTokenOrPermit = its start, CheckRevoked = before ASReturnIfRevoked, Accepting = at
   ASAcceptOrPermit, SleepAfterError = inside the sleep that ends an error arm. *)
From Coq Require Import List Arith Bool NArith.
From SV Require Import Base.SrcAst Model.Accept Generated.SourceParams.
Import ListNotations.

Lemma accept_translated : src_problems_accept = 0%nat /\ src_problems_spawn = 0%nat.
Proof. split; reflexivity. Qed.

Fixpoint suffix_from (p : acc_stmt -> bool) (l : list acc_stmt) : list acc_stmt :=
  match l with
  | [] => []
  | x :: r => if p x then l else suffix_from p r
  end.
Definition is_ret_revoked (x : acc_stmt) : bool := match x with ASReturnIfRevoked => true | _ => false end.
Definition is_accept (x : acc_stmt) : bool := match x with ASAcceptOrPermit _ => true | _ => false end.

Section Interp.
Variable n : nat.

Definition with_loop (s : st) (p : pc) : st :=
  mk_st p (avail s) (conns s) (revoked s) (listening s) (stopped s) (next_id s) (lost s).
(* the Token held by the loop body is dropped: try_send on the channel *)
Definition drop_token (s : st) : st :=
  let '(av, lo) := put n (avail s) (lost s) in
  mk_st (loop s) av (conns s) (revoked s) (listening s) (stopped s) (next_id s) lo.
(* `return`: the locals of accept_loop (listener, token set) are dropped *)
Definition returned (s : st) : st :=
  mk_st Done (avail s) (conns s) (revoked s) false (stopped s) (next_id s) (lost s).
(* the end of the loop body is reached: a token still held is dropped, the next iteration begins *)
Definition end_iteration (tok : bool) (s : st) : st :=
  with_loop (if tok then drop_token s else s) WaitTokenOrPermit.

(* holding a token, the task goes on to the next pause point *)
Definition advance (rest : list acc_stmt) (s : st) : option st :=
  match rest with
  | ASReturnIfRevoked :: _ => Some (with_loop s CheckRevoked)
  | ASAcceptOrPermit _ :: _ => Some (with_loop s Accepting)
  | _ => None
  end.

Fixpoint pick_arm (arms : list (acc_pat * list acc_act)) (p : acc_pat) : option (list acc_act) :=
  match arms with
  | [] => None
  | (q, acts) :: rest =>
      if (match p, q with APOk, APOk | APTooManyFiles, APTooManyFiles | APErr, APErr | APNone, APNone => true | _, _ => false end)
      then Some acts else pick_arm rest p
  end.

(* the statements of a match arm, then the end of the iteration; a sleep is a pause point (it must end the arm) *)
Fixpoint run_acts (acts : list acc_act) (tok : bool) (s : st) : option st :=
  match acts with
  | [] => Some (end_iteration tok s)
  | AAHandToConn :: rest =>
      if tok then
        run_acts rest false
          (mk_st (loop s) (avail s) (conns s ++ [mk_conn (next_id s) CHead 0 0 0 (revoked s)])
                 (revoked s) (listening s) (stopped s) (S (next_id s)) (lost s))
      else None                                  (* the token was moved already *)
  | AALogError :: rest => run_acts rest tok s
  | AASleep _ :: rest =>
      match rest with
      | [] => if tok then Some (with_loop s SleepAfterError) else None
      | _ => None
      end
  end.

Inductive acc_event := EvLoop | EvIncomingOk | EvIncomingErr (too_many_files : bool).

Definition eval_accept (body : list acc_stmt) (s : st) (ev : acc_event) : option st :=
  match loop s, ev with
  | WaitTokenOrPermit, EvLoop =>
      match body with
      | ASWaitTokenOrPermit :: ASReturnIfNoToken :: rest =>
          match avail s with                       (* `or` polls the token wait first *)
          | S k => advance rest (mk_st (loop s) k (conns s) (revoked s) (listening s) (stopped s) (next_id s) (lost s))
          | O => if revoked s then Some (returned s) else None
          end
      | ASWaitToken :: rest =>
          match avail s with
          | S k => advance rest (mk_st (loop s) k (conns s) (revoked s) (listening s) (stopped s) (next_id s) (lost s))
          | O => None
          end
      | _ => None
      end
  | CheckRevoked, EvLoop =>
      match suffix_from is_ret_revoked body with
      | ASReturnIfRevoked :: rest => if revoked s then Some (returned (drop_token s)) else advance rest s
      | _ => None
      end
  | Accepting, _ =>
      match suffix_from is_accept body with
      | [ASAcceptOrPermit arms] =>
          match ev with
          | EvLoop => if revoked s then match pick_arm arms APNone with Some acts => run_acts acts true s | None => None end
                      else None
          | EvIncomingOk => match pick_arm arms APOk with Some acts => run_acts acts true s | None => None end
          | EvIncomingErr tmf =>
              match pick_arm arms (if tmf then APTooManyFiles else APErr) with Some acts => run_acts acts true s | None => None end
          end
      | _ => None
      end
  | SleepAfterError, EvLoop => Some (end_iteration true s)
  | Done, EvLoop =>
      (* accept_loop has returned: the task spawned in src/lib.rs (translated too) goes on to its next statement *)
      match src_spawn_task with
      | [SSAcceptLoop; SSSendStopped] =>
          if stopped s then None                   (* the task has ended *)
          else Some (mk_st Done (avail s) (conns s) (revoked s) (listening s) true (next_id s) (lost s))
      | _ => None
      end
  | _, _ => None
  end.

Definition action_of (ev : acc_event) : action :=
  match ev with EvLoop => Loop | EvIncomingOk => IncomingOk | EvIncomingErr _ => IncomingErr end.

Theorem accept_loop_tie : forall s ev, eval_accept src_accept_loop s ev = step true n s (action_of ev).
Proof.
  intros [lp av cs rv li sp ni lo] ev. unfold eval_accept, src_accept_loop.
  destruct lp; destruct ev as [| |tmf]; cbn -[put]; try reflexivity.
  - (* WaitTokenOrPermit, Loop *) destruct av; [destruct rv|]; reflexivity.
  - (* CheckRevoked, Loop *) destruct rv; cbn -[put]; [|reflexivity].
    unfold returned, drop_token. cbn -[put]. destruct (put n av lo); reflexivity.
  - (* Accepting, Loop *) destruct rv; cbn -[put]; [|reflexivity].
    unfold end_iteration, with_loop, drop_token. cbn -[put]. destruct (put n av lo); reflexivity.
  - (* Accepting, IncomingErr *) destruct tmf; reflexivity.
  - (* SleepAfterError, Loop *) unfold end_iteration, with_loop, drop_token. cbn -[put]. destruct (put n av lo); reflexivity.
Qed.
End Interp.
