(* Tie/JsonTie.v -- src/log/tag_value.rs and LogEvent::write_jsonl (src/log/logger.rs) as TRANSLATED from the
   source on this run (Generated/SourceParams.v: src_json_quote, src_json_arms, src_tagvalue_arms, src_jsonl_binds,
   src_jsonl_fmt_empty, src_jsonl_fmt_tags), interpreted arm by arm / segment by segment, are the hand-written
   model of Model/Json.v for every character, every tag value and every event. *)
From Coq Require Import List NArith ZArith Bool Lia.
From SV Require Import Base.Bytes Base.SrcAst Spec.Json8259 Spec.Civil Model.Json Model.Time Tie.FmtEval Tie.JsonlBindsText Generated.SourceParams.
Import ListNotations.
Open Scope N_scope.

Lemma json_translated : src_problems_json = 0%nat.
Proof. reflexivity. Qed.
Lemma jsonl_translated : src_problems_jsonl = 0%nat.
Proof. reflexivity. Qed.

(* ---------------------------------------------------------------- write_json_string *)
(* {:04x} of a u32: lower-case hexadecimal, zero-padded to at least four digits; below 2^16 that is exactly four *)
Definition hex4 (c : N) : list N :=
  [hex_digit (c / 4096 mod 16); hex_digit (c / 256 mod 16); hex_digit (c / 16 mod 16); hex_digit (c mod 16)].
(* the first arm whose pattern / guard accepts c decides; a match without a catch-all arm does not compile *)
Fixpoint eval_json_arms (arms : list json_arm) (c : N) : option (list N) :=
  match arms with
  | [] => None
  | JLit k out :: rest => if c =? k then Some out else eval_json_arms rest c
  | JBelowHex4 b pre :: rest => if (c <? b) && (b <=? 65536) then Some (pre ++ hex4 c) else
                                if c <? b then None else eval_json_arms rest c
  | JSelf :: _ => Some [c]
  end.

Lemma hex4_small c : c < 32 -> hex4 c = [48; 48; hex_digit (c / 16); hex_digit (c mod 16)].
Proof.
  intros H. unfold hex4.
  replace (c / 4096) with 0 by (symmetry; apply N.div_small; lia).
  replace (c / 256) with 0 by (symmetry; apply N.div_small; lia).
  replace (c / 16 mod 16) with (c / 16) by (symmetry; apply N.mod_small; apply N.div_lt_upper_bound; lia).
  reflexivity.
Qed.

Theorem json_escape_tie : forall c, eval_json_arms src_json_arms c = Some (escape_char c).
Proof.
  intros c. unfold src_json_arms, escape_char. cbn [eval_json_arms].
  destruct (c =? 34); [reflexivity|]. destruct (c =? 92); [reflexivity|]. destruct (c =? 10); [reflexivity|].
  destruct (c =? 13); [reflexivity|]. destruct (c =? 9); [reflexivity|].
  destruct (c <? 32) eqn:E; cbn [andb]; [|reflexivity].
  apply N.ltb_lt in E. rewrite (hex4_small c E). reflexivity.
Qed.

(* the whole function: quote, the arms for every char of the string, quote *)
Fixpoint eval_json_string_body (arms : list json_arm) (s : text) : option text :=
  match s with
  | [] => Some []
  | c :: r => match eval_json_arms arms c, eval_json_string_body arms r with
              | Some a, Some b => Some (a ++ b)
              | _, _ => None
              end
  end.
Definition eval_write_json_string (s : text) : option text :=
  match eval_json_string_body src_json_arms s with
  | Some b => Some (src_json_quote ++ b ++ src_json_quote)
  | None => None
  end.
Theorem write_json_string_tie : forall s, eval_write_json_string s = Some (write_json_string s).
Proof.
  intros s. unfold eval_write_json_string, write_json_string.
  assert (H : eval_json_string_body src_json_arms s = Some (escape_text s)).
  { induction s as [|c r IH]; [reflexivity|]. cbn [eval_json_string_body]. rewrite json_escape_tie, IH. reflexivity. }
  rewrite H. reflexivity.
Qed.

(* ---------------------------------------------------------------- Display for TagValue *)
(* the variants of TagValue as the model groups them *)
Definition v_Str := [83;116;114]. Definition v_String := [83;116;114;105;110;103]. Definition v_Bool := [66;111;111;108].
Definition v_Float := [70;108;111;97;116]. Definition v_Null := [78;117;108;108].
Definition int_variants : list (list N) :=
  [[73;56]; [73;49;54]; [73;51;50]; [73;54;52]; [73;49;50;56]; [85;56]; [85;49;54]; [85;51;50]; [85;54;52]; [85;49;50;56];
   [85;115;105;122;101]].
(* what the arm table does for variant [name] whose payload prints as [shown] under Display (for Str / String /
   Float the payload is the text itself): the first arm of that variant whose guard holds *)
Fixpoint eval_tv_arms (arms : list tv_arm) (name : list N) (shown : text) : option text :=
  match arms with
  | [] => None
  | (n, act) :: rest =>
      if beq n name then
        match act with
        | TVJsonString => eval_write_json_string shown
        | TVDisplay => Some shown
        | TVJsonStringIfEndsWith sfx =>
            if existsb (fun x => ends_with shown x) sfx then eval_write_json_string shown else eval_tv_arms rest name shown
        | TVLit t => Some t
        end
      else eval_tv_arms rest name shown
  end.

Theorem tagvalue_display_tie :
  (forall s, eval_tv_arms src_tagvalue_arms v_Str s = Some (display_value (VStr s))) /\
  (forall s, eval_tv_arms src_tagvalue_arms v_String s = Some (display_value (VStr s))) /\
  (forall b : bool, eval_tv_arms src_tagvalue_arms v_Bool (if b then t_true else t_false) = Some (display_value (VBool b))) /\
  (forall z name, In name int_variants -> eval_tv_arms src_tagvalue_arms name (display_int z) = Some (display_value (VInt z))) /\
  (forall t, eval_tv_arms src_tagvalue_arms v_Float t = Some (display_value (VFloat t))) /\
  eval_tv_arms src_tagvalue_arms v_Null [] = Some (display_value VNull) /\
  map fst src_tagvalue_arms = [v_Str; v_String; v_Bool] ++ int_variants ++ [v_Float; v_Float; v_Null].
Proof.
  split; [|split; [|split; [|split; [|split; [|split]]]]].
  - intros s. unfold src_tagvalue_arms. cbn [eval_tv_arms]. vm_compute (beq _ v_Str). apply write_json_string_tie.
  - intros s. unfold src_tagvalue_arms. cbn [eval_tv_arms]. vm_compute (beq _ v_String). vm_compute (beq _ v_String).
    apply write_json_string_tie.
  - intros b. destruct b; reflexivity.
  - intros z name Hin. unfold int_variants in Hin. cbn [In] in Hin.
    repeat (destruct Hin as [<-|Hin]; [reflexivity|]). destruct Hin.
  - intros t. unfold src_tagvalue_arms, v_Float. cbn [eval_tv_arms].
    repeat match goal with |- context [beq ?a ?b] => let r := eval vm_compute in (beq a b) in change (beq a b) with r; cbv iota end.
    cbn [existsb display_value]. rewrite orb_false_r. change [78;97;78] with t_NaN. change [105;110;102] with t_inf.
    destruct (ends_with t t_NaN || ends_with t t_inf); [apply write_json_string_tie|reflexivity].
  - reflexivity.
  - reflexivity.
Qed.

(* ---------------------------------------------------------------- LogEvent::write_jsonl *)
Definition n_year := [121;101;97;114]. Definition n_month := [109;111;110;116;104]. Definition n_day := [100;97;121].
Definition n_hour := [104;111;117;114]. Definition n_min := [109;105;110]. Definition n_sec := [115;101;99].
Definition n_level := [108;101;118;101;108]. Definition n_tags := [116;97;103;115]. Definition n_time_ns := [116;105;109;101;95;110;115].

(* the bindings in front of the format strings: each inline argument is the field of that name
   (Tie/JsonlBindsText.v holds the expected source texts as string literals) *)
Theorem jsonl_binds_tie : src_jsonl_binds = expected_jsonl_binds.
Proof. reflexivity. Qed.

(* how each named value prints: integers with {:0w} (Model/Time.v fmt_int), the level, the tag list and the
   nanoseconds with plain {} *)
Definition jsonl_env (t : dt) (lvl : level) (tags : list tag) (ns : N) (name : list N) (w : N) : option (list N) :=
  if beq name n_year then Some (fmt_int (N.to_nat w) (year t)) else
  if beq name n_month then Some (fmt_int (N.to_nat w) (month t)) else
  if beq name n_day then Some (fmt_int (N.to_nat w) (day t)) else
  if beq name n_hour then Some (fmt_int (N.to_nat w) (hour t)) else
  if beq name n_min then Some (fmt_int (N.to_nat w) (minute t)) else
  if beq name n_sec then Some (fmt_int (N.to_nat w) (sec t)) else
  if beq name n_level then (if w =? 0 then Some (level_text lvl) else None) else
  if beq name n_tags then (if w =? 0 then Some (display_taglist tags) else None) else
  if beq name n_time_ns then (if w =? 0 then Some (dec ns) else None) else None.

(* if tags.is_empty() { writeln!(f, <fmt_empty>) } else { writeln!(f, <fmt_tags>) } *)
Definition eval_write_jsonl (t : dt) (lvl : level) (tags : list tag) (ns : N) : option text :=
  match eval_fmt (jsonl_env t lvl tags ns) (if is_nil tags then src_jsonl_fmt_empty else src_jsonl_fmt_tags) with
  | Some line => Some (line ++ [10])
  | None => None
  end.

Theorem write_jsonl_tie : forall t lvl tags ns,
  eval_write_jsonl t lvl tags ns = Some (write_jsonl (fmt_iso t) ns lvl tags).
Proof.
  intros t lvl tags ns.
  unfold eval_write_jsonl, write_jsonl, fmt_iso, lit_open, lit_level, lit_after_level, lit_time_ns.
  destruct tags as [|tg tl].
  - lazy -[app fmt_int level_text dec display_taglist]. repeat (rewrite <- app_assoc || rewrite <- app_comm_cons). cbn [app]. reflexivity.
  - lazy -[app fmt_int level_text dec display_taglist]. repeat (rewrite <- app_assoc || rewrite <- app_comm_cons). cbn [app]. reflexivity.
Qed.
