(* Tie/LogTie.v -- the hand-written model agrees with what props/srcparams.py read from the repository
   source on this run (Generated/SourceParams.v).  Re-checked on every run against the CURRENT
   source; a changed literal or table breaks the lemma of the model that depends on it. *)
From Coq Require Import List NArith ZArith Bool Lia.
From SV Require Import Base.Bytes Generated.SourceParams.
Import ListNotations.
From SV Require Import Model.Log.

Lemma log_prio_translated : src_problems_log_prio = 0%nat.
Proof. reflexivity. Qed.

(* ---- src/log/logger.rs ---- *)
Fixpoint prio_lookup (name : bytes) (tbl : list (list N * N)) (dflt : N) : N :=
  match tbl with [] => dflt | (k, p) :: t => if beq name k then p else prio_lookup name t dflt end.
Lemma log_prio_tie name : prio name = prio_lookup name src_log_prio_table src_log_prio_default.
Proof. unfold prio. cbn [prio_lookup src_log_prio_table src_log_prio_default]. reflexivity. Qed.
