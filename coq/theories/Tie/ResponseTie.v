(* Tie/ResponseTie.v -- the statements of write_http_response (src/response.rs) that build the head, as TRANSLATED on
   this run (Generated/SourceParams.v: src_resp_head -- header names, format strings, error names and the ORDER of the
   statements all come from the source), interpreted with `head_bytes` as the only local variable, give Model/Response.v's
   build_head (the current code, prefix = false) for every response and close flag.  Header values are AsciiStrings:
   every char is one byte below 128, so `u8::try_from(c).unwrap_or(255)` copies it (the ASCII invariant of C14). *)
From Coq Require Import List NArith Bool.
From SV Require Import Base.Bytes Base.SrcAst Model.Headers Model.IOSched Spec.RespParse Model.Request Model.Response Generated.SourceParams Tie.FmtEval.
Import ListNotations.
Open Scope N_scope.

Lemma resp_head_translated : src_problems_resp_head = 0%nat /\ src_resp_body_shape_ok = true.
Proof. split; reflexivity. Qed.

(* copy_async's FixedBuf length, read from src/util.rs on this run, is the model's copy_cap (its loop is checked for shape) *)
Lemma copy_buf_tie : copy_cap = N.to_nat src_copy_buf_len /\ src_problems_copy_async = 0%nat.
Proof. split; reflexivity. Qed.

Definition werr_of (e : werr_name) : werr :=
  match e with
  | WNUnwritable => EUnwritable
  | WNDupContentType => EDupContentType
  | WNDupContentLength => EDupContentLength
  | WNDupTransferEncoding => EDupTransferEncoding
  | WNDisconnected => EDisconnected
  | WNOther => EOutOfFuel
  end.

Section Interp.
  Variable reason : N -> bytes.
  Variable ct_text : nat -> bytes.

  (* what each named format argument prints *)
  Definition head_env (r : response) (blen : option N) (hname : option bytes) (name : list N) (w : N) : option bytes :=
    if negb (w =? 0) then None else
    if beq name [99;111;100;101] then Some (dec (r_code r)) else                       (* code *)
    if beq name [114;101;97;115;111;110] then Some (reason (r_code r)) else             (* reason *)
    if beq name [99;116;121;112;101] then Some (ctype_str ct_text (r_ctype r)) else     (* ctype *)
    if beq name [98;111;100;121;95;108;101;110] then option_map dec blen else           (* body_len *)
    if beq name [104;110;97;109;101] then hname else None.                              (* hname *)

  Definition fmt_or_empty (o : option bytes) : bytes := match o with Some b => b | None => [] end.

  (* one pass of `for header in &response.headers { .. }` *)
  Definition header_line (fmt_name : list fmt_seg) (after : bytes) (r : response) (f : header) : bytes :=
    fmt_or_empty (eval_fmt (head_env r None (Some (fst f))) fmt_name) ++ snd f ++ after.

  (* head_bytes: None before `let mut head_bytes` *)
  Definition eval_head_stmt (st : head_stmt) (r : response) (close : bool) (hb : option bytes) : werr + option bytes :=
    match st with
    | HSRejectUnlessNormal e => if negb (r_normal r) then inl (werr_of e) else inr hb
    | HSStatusLine fmt =>
        match eval_fmt (head_env r None None) fmt with Some t => inr (Some t) | None => inl EOutOfFuel end
    | HSContentType name e fmt =>
        if ctype_set (r_ctype r) then
          if negb (is_empty (get_all (r_headers r) name)) then inl (werr_of e) else
          match hb, eval_fmt (head_env r None None) fmt with
          | Some h, Some t => inr (Some (h ++ t))
          | _, _ => inl EOutOfFuel
          end
        else inr hb
    | HSIfClose fmt =>
        if close then
          match hb, eval_fmt (head_env r None None) fmt with
          | Some h, Some t => inr (Some (h ++ t))
          | _, _ => inl EOutOfFuel
          end
        else inr hb
    | HSRejectIfPresent name e => if negb (is_empty (get_all (r_headers r) name)) then inl (werr_of e) else inr hb
    | HSFraming known unknown =>
        match hb, (match body_len (r_body r) with
                   | Some n => eval_fmt (head_env r (Some n) None) known
                   | None => eval_fmt (head_env r None None) unknown
                   end) with
        | Some h, Some t => inr (Some (h ++ t))
        | _, _ => inl EOutOfFuel
        end
    | HSHeaders fmt_name after =>
        match hb with
        | Some h =>
            inr (Some (h ++ concat (map (header_line fmt_name after r) (r_headers r))))
        | None => inl EOutOfFuel
        end
    | HSExtend t => match hb with Some h => inr (Some (h ++ t)) | None => inl EOutOfFuel end
    end.
  Fixpoint eval_head_stmts (l : list head_stmt) (r : response) (close : bool) (hb : option bytes) : werr + bytes :=
    match l with
    | [] => match hb with Some h => inr h | None => inl EOutOfFuel end
    | st :: rest =>
        match eval_head_stmt st r close hb with
        | inl e => inl e
        | inr hb' => eval_head_stmts rest r close hb'
        end
    end.
  Definition eval_head (r : response) (close : bool) : werr + bytes := eval_head_stmts src_resp_head r close None.

  Lemma map_field_line r hs :
    map (header_line [FArg [104;110;97;109;101] 0; FLit [58; 32]] [13; 10] r) hs = map field_line hs.
  Proof.
    apply map_ext. intros f. unfold header_line, field_line, s_colon_sp, crlf.
    lazy [eval_fmt head_env beq N.eqb negb andb Pos.eqb fmt_or_empty option_map].
    now rewrite <- !app_assoc.
  Qed.

  Ltac red_head :=
    lazy [eval_head_stmts eval_head_stmt eval_fmt head_env beq N.eqb negb andb Pos.eqb fmt_or_empty option_map].

  Theorem response_head_tie : forall r close, eval_head r close = build_head reason ct_text false r close.
  Proof.
    intros r close. unfold eval_head, src_resp_head, build_head.
    red_head.
    destruct (r_normal r); [|reflexivity].
    change (get_all (r_headers r) [99;111;110;116;101;110;116;45;116;121;112;101]) with (get_all (r_headers r) s_content_type).
    change (get_all (r_headers r) [99;111;110;116;101;110;116;45;108;101;110;103;116;104]) with (get_all (r_headers r) s_content_length).
    change (get_all (r_headers r) [116;114;97;110;115;102;101;114;45;101;110;99;111;100;105;110;103]) with (get_all (r_headers r) s_transfer_encoding).
    destruct (ctype_set (r_ctype r)); red_head;
      [destruct (is_empty (get_all (r_headers r) s_content_type)); red_head; [|reflexivity]|];
      destruct close; red_head;
      (destruct (is_empty (get_all (r_headers r) s_content_length)); red_head; [|reflexivity]);
      (destruct (is_empty (get_all (r_headers r) s_transfer_encoding)); red_head; [|reflexivity]);
      destruct (body_len (r_body r)) as [n|]; red_head.
    all: rewrite map_field_line.
    all: unfold status_line, field_line, s_http11_sp, s_content_type, s_content_length, s_transfer_encoding, s_chunked,
        s_connection, s_close, s_colon_sp, crlf; cbn [fst snd].
    all: repeat (rewrite <- app_assoc || rewrite <- app_comm_cons); cbn [app]; rewrite ?app_nil_r.
    all: reflexivity.
  Qed.
End Interp.
