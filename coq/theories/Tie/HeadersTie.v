(* Tie/HeadersTie.v -- HeaderList (src/headers.rs) as read from the source on this run: the translator checks that add,
   get_only, get_all, remove_only and remove_all have the loop shapes that Model/Headers.v transcribes, and hands
   over the two things that vary inside those shapes: the name comparison (all loops use the same one) and the Vec
   method by which remove_all takes a matching header out.  Here: the comparison is str::eq_ignore_ascii_case (the
   model's [matches] = eq_ic), and the model's remove_all is the loop with THAT method -- Vec::remove keeps the order of
   the remaining headers, Vec::swap_remove (defect D11) does not. *)
From Coq Require Import List NArith Bool.
From SV Require Import Base.Bytes Model.Headers Generated.SourceParams.
Import ListNotations.
Open Scope N_scope.

Lemma headers_translated : src_problems_headers = 0%nat.
Proof. reflexivity. Qed.

Definition m_remove : list N := [114;101;109;111;118;101].                                   (* "remove" *)
Definition m_swap_remove : list N := [115;119;97;112;95;114;101;109;111;118;101].            (* "swap_remove" *)
Definition m_eq_ignore_ascii_case : list N :=
  [101;113;95;105;103;110;111;114;101;95;97;115;99;105;105;95;99;97;115;101].

(* which loop the source's method name denotes; any other Vec method is not one the model knows *)
Definition remove_all_of_method (meth : list N) : option (hlist -> bytes -> hlist * list bytes) :=
  if beq meth m_remove then Some (remove_all_gen false)
  else if beq meth m_swap_remove then Some (remove_all_gen true)
  else None.

Theorem headers_compare_tie : src_hdr_compare = m_eq_ignore_ascii_case.
Proof. reflexivity. Qed.

Theorem headers_remove_all_tie : remove_all_of_method src_hdr_remove_method = Some remove_all.
Proof. reflexivity. Qed.
