(* Tie/RequestTie.v -- the field names, literals and the two decision tables of read_http_request as TRANSLATED
   from src/request.rs on this run (Generated/SourceParams.v), interpreted arm by arm in source order (first
   matching arm wins, as a Rust `match`), are the model's te_flags / body_table / names. *)
From Coq Require Import List NArith Bool Lia.
From SV Require Import Base.Bytes Base.SrcAst Model.Headers Model.RustStr Model.Request Generated.SourceParams.
Import ListNotations.
Open Scope N_scope.

Lemma request_translated : src_problems_request = 0%nat.
Proof. reflexivity. Qed.

Lemma request_names_tie :
  src_req_content_type = n_content_type /\ src_req_expect = n_expect /\ src_req_expect_value = s_100_continue /\
  src_req_transfer_encoding = n_transfer_encoding /\ src_req_cookie = n_cookie /\
  src_req_content_length = n_content_length.
Proof. repeat split; reflexivity. Qed.

(* ---- the coding-list match ---- *)
Definition pat_match (p : option (list N)) (o : option bytes) : bool :=
  match p with Some lit => opt_is o lit | None => opt_none o end.
Fixpoint te_eval (arms : list te_arm) (i1 i2 i3 : option bytes) : option (bool * bool) :=
  match arms with
  | [] => None                                   (* `_ => return Err(UnsupportedTransferEncoding)` *)
  | ((p1, p2, p3), r) :: t =>
      if pat_match p1 i1 && pat_match p2 i2 && pat_match p3 i3 then Some r else te_eval t i1 i2 i3
  end.
Lemma te_table_tie value :
  te_flags value =
  let items := split_trim_nonempty 44 (match value with Some s => s | None => [] end) in
  te_eval src_te_arms (nth_error items 0) (nth_error items 1) (nth_error items 2).
Proof. reflexivity. Qed.

(* ---- the body match ---- *)
Definition clen_match (p : clen_pat) (cl : option N) : bool :=
  match p, cl with
  | CLAny, _ => true
  | CLSomeLit n, Some m => m =? n
  | CLSomeVar, Some _ => true
  | CLNone, None => true
  | _, _ => false
  end.
Definition arm_match (a : body_arm) (ch : bool) (cl : option N) (m : bytes) (ex gz : bool) : bool :=
  (match ba_chunked a with Some b => Bool.eqb b ch | None => true end) &&
  clen_match (ba_clen a) cl &&
  (match ba_methods a with Some ms => existsb (beq m) ms | None => true end) &&
  (match ba_guard a with BGNone => true | BGExpectOrGzip => ex || gz end).
Definition arm_result (a : body_arm) (cl : option N) : body_kind :=
  match ba_result a with
  | BREmpty => BodyEmpty
  | BRUnknown => PendingUnknown
  | BRKnownVar => match cl with Some n => PendingKnown n | None => BodyEmpty end
  end.
Fixpoint body_eval (arms : list body_arm) (ch : bool) (cl : option N) (m : bytes) (ex gz : bool) : option body_kind :=
  match arms with
  | [] => None                                   (* a non-exhaustive match would not compile *)
  | a :: t => if arm_match a ch cl m ex gz then Some (arm_result a cl) else body_eval t ch cl m ex gz
  end.
Theorem body_table_tie ch cl m ex gz :
  body_eval src_body_arms ch cl m ex gz = Some (body_table ch cl m ex gz).
Proof.
  unfold body_table, src_body_arms. cbn [body_eval]. unfold arm_match, arm_result.
  cbn [ba_chunked ba_clen ba_methods ba_guard ba_result existsb].
  destruct ch; cbn [Bool.eqb andb clen_match]; [reflexivity|].
  destruct cl as [n|]; cbn [clen_match andb].
  - destruct (n =? 0) eqn:E; reflexivity.
  - rewrite orb_false_r. destruct (beq m s_POST || beq m s_PUT) eqn:E.
    + replace (beq m [80; 79; 83; 84] || beq m [80; 85; 84]) with true by (symmetry; exact E). reflexivity.
    + replace (beq m [80; 79; 83; 84] || beq m [80; 85; 84]) with false by (symmetry; exact E). cbn [andb].
      destruct (ex || gz); reflexivity.
Qed.
