(* Tie/CookieTie.v -- `impl Display for Cookie` as TRANSLATED from src/cookie.rs on this run (the list of
   statements src_cookie_display of Generated/SourceParams.v), interpreted statement by statement, is the model's
   display_cookie for every cookie. *)
From Coq Require Import List NArith ZArith Bool Lia.
From SV Require Import Base.Bytes Base.SrcAst Spec.Rfc6265 Model.Cookie Generated.SourceParams.
Import ListNotations.

Lemma cookie_translated : src_problems_cookie = 0%nat.
Proof. reflexivity. Qed.

(* the meaning of a guard and of an argument; None = the formatting panics (Expires before the epoch) *)
Definition guard_holds (g : cookie_guard) (c : cookie) : bool :=
  match g with
  | GDomainNonEmpty => negb (is_empty (c_domain c))
  | GExpiresSet => match c_expires c with Some _ => true | None => false end
  | GHttpOnly => c_http_only c
  | GMaxAgePositive => (0 <? c_max_age_secs c)%N || c_max_age_subsec c
  | GPathNonEmpty => negb (is_empty (c_path c))
  | GSecure => c_secure c
  end.
Definition arg_text (a : cookie_arg) (c : cookie) : option bytes :=
  match a with
  | ANone => Some []
  | ADomain => Some (c_domain c)
  | AExpiresIso => match c_expires c with Some s => expires_text s | None => Some [] end
  | AMaxAgeSecs => Some (dec (c_max_age_secs c))
  | APath => Some (c_path c)
  end.
Definition eval_seg (sg : cookie_seg) (c : cookie) : option bytes :=
  match sg with
  | SegNameValue sep => Some (c_name c ++ sep ++ c_value c)
  | SegIf g lit a =>
      if guard_holds g c then match arg_text a c with Some t => Some (lit ++ t) | None => None end else Some []
  | SegSameSite st lx nn => Some (match c_same_site c with Strict => st | Lax => lx | SSNone => nn end)
  end.
Fixpoint eval_segs (sgs : list cookie_seg) (c : cookie) : option bytes :=
  match sgs with
  | [] => Some []
  | sg :: t => match eval_seg sg c, eval_segs t c with
               | Some a, Some b => Some (a ++ b)
               | _, _ => None
               end
  end.

Theorem cookie_display_tie : forall c, eval_segs src_cookie_display c = display_cookie c.
Proof.
  intros [nm vl dm ex ho pa ma ms ss se]. unfold display_cookie, src_cookie_display.
  cbn [eval_segs eval_seg guard_holds arg_text c_name c_value c_domain c_expires c_http_only c_path
       c_max_age_secs c_max_age_subsec c_same_site c_secure].
  destruct (is_empty dm); destruct ex as [s|]; cbn [negb];
    try (destruct (expires_text s) as [t|]; [|destruct ho; reflexivity]);
    destruct ho; destruct ((0 <? ma)%N || ms); destruct (is_empty pa); cbn [negb]; destruct ss; destruct se;
    unfold S_DOMAIN, S_EXPIRES, S_HTTPONLY, S_MAX_AGE, S_PATH, S_SS_STRICT, S_SS_LAX, S_SS_NONE, S_SECURE;
    rewrite ?app_nil_r; repeat (rewrite <- app_assoc || rewrite <- app_comm_cons); cbn [app];
    rewrite ?app_nil_r; reflexivity.
Qed.
