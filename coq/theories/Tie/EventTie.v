(* Tie/EventTie.v -- the hand-written model agrees with what props/srcparams.py read from the repository
   source on this run (Generated/SourceParams.v).  Re-checked on every run against the CURRENT
   source; a changed literal or table breaks the lemma of the model that depends on it. *)
From Coq Require Import List NArith ZArith Bool Lia.
From SV Require Import Base.Bytes Generated.SourceParams.
Import ListNotations.
From SV Require Import Model.Event.

Lemma event_translated : (src_problems_event_queue + src_problems_event_fmt = 0)%nat.
Proof. reflexivity. Qed.

Lemma event_queue_cap_tie : N.of_nat queue_cap = src_event_queue_cap.
Proof. reflexivity. Qed.

(* ---- src/event.rs write_to ---- *)
Lemma event_formats_tie :
  src_event_type_fmt = (t_event, [10]) /\ src_event_data_fmt = (t_data, [10]).
Proof. split; reflexivity. Qed.

