(* Tie/ConnTie.v -- the hand-written model agrees with what props/srcparams.py read from the repository
   source on this run (Generated/SourceParams.v).  Re-checked on every run against the CURRENT
   source; a changed literal or table breaks the lemma of the model that depends on it. *)
From Coq Require Import List NArith ZArith Bool Lia.
From SV Require Import Base.Bytes Generated.SourceParams.
Import ListNotations.
From SV Require Import Model.ConnInst.

Lemma conn_buf_translated : src_problems_conn_buf = 0%nat.
Proof. reflexivity. Qed.

Lemma conn_buf_tie : cap8k = N.to_nat src_conn_buf_len.
Proof. reflexivity. Qed.
