(* Tie/WriteResponseTie.v -- HttpConn::write_response (src/http_conn.rs) after its state guard, as TRANSLATED on this run
   (Generated/SourceParams.v: src_wr_close_lo / _hi, src_wr_ok_branch; the translator also checks that the byte counter
   is created per call, that the Err branch shuts the write side down iff that counter is positive, that the result is
   returned, and the two statements of shutdown_write), interpreted over the model's connection, is
   Model/WriteFail.v's conn_write_response for every connection state, writer and response. *)
From Coq Require Import List NArith Bool.
From SV Require Import Base.Bytes Base.SrcAst Model.Headers Model.IOSched Model.Response Model.WriteFail Generated.SourceParams.
Import ListNotations.
Open Scope N_scope.

Lemma write_response_translated : src_problems_write_response = 0%nat.
Proof. reflexivity. Qed.

Section Interp.
  Variable reason : N -> bytes.
  Variable ct_text : nat -> bytes.

  Definition eval_after (a : wr_after) (close one_xx : bool) (c : conn) : conn :=
    match a with
    | WASetNoneUnless1xx => if one_xx then c else mkConn WsNone (c_writer c) (c_wire c) (c_shutdowns c)
    | WAShutdownIfClose => if close then shutdown_write c else c
    end.
  Fixpoint eval_afters (l : list wr_after) (close one_xx : bool) (c : conn) : conn :=
    match l with
    | [] => c
    | a :: rest => eval_afters rest close one_xx (eval_after a close one_xx c)
    end.

  (* guard (tied separately: Tie/ConnGuardTie.v); counter per call; close; write; the two branches; result *)
  Definition eval_write_response (c : conn) (r : response) : option cerr * conn :=
    match c_ws c with
    | WsNone => (Some CeAlreadySent, c)
    | WsShutdown => (Some CeDisconnected, c)
    | WsResponse =>
        let close := (src_wr_close_lo <=? r_code r) && (r_code r <=? src_wr_close_hi) in
        let '(res, acc, w') := write_http_response reason ct_text r close (c_writer c) in
        let counter := N.of_nat (length acc) in          (* AsyncWriteCounter::new: starts at 0 for this call *)
        let c1 := mkConn (c_ws c) w' (c_wire c ++ acc) (c_shutdowns c) in
        match res with
        | None => (None, eval_afters src_wr_ok_branch close (is_1xx (r_code r)) c1)
        | Some e => (Some (CeWrite e), if 0 <? counter then shutdown_write c1 else c1)
        end
    end.

  Theorem write_response_tie : forall c r, eval_write_response c r = conn_write_response reason ct_text c r.
  Proof.
    intros c r. unfold eval_write_response, conn_write_response, src_wr_close_lo, src_wr_close_hi, src_wr_ok_branch, closes.
    destruct (c_ws c); reflexivity.
  Qed.
  (* the `match result { .. }` of handle_http_conn as translated (src_conn_loop), over this connection model:
     Ok => go on; Err(Disconnected) => return; Err(e) => the translated statements of the last arm *)
  Fixpoint wf_eval_err_acts (acts : list loop_err_act) (r500 : response) (st : option (option cerr) * conn)
    : option (option cerr) * conn :=
    match acts with
    | [] => st
    | LAPrint :: rest => wf_eval_err_acts rest r500 st
    | LAWriteErrorResponse :: rest =>
        let '(res2, c2) := eval_write_response (snd st) r500 in wf_eval_err_acts rest r500 (Some res2, c2)
    | LAShutdownWrite :: rest => wf_eval_err_acts rest r500 (fst st, shutdown_write (snd st))
    | LAReturn :: _ => st
    end.
  Definition src_result_arm_acts : list loop_err_act :=
    match src_conn_loop with
    | [LSReturnUnlessReady; LSOnce; LSMatchResult acts] => acts
    | _ => []
    end.
  Definition wf_eval_after_result (c : conn) (res : option cerr) (r500 : response) : option (option cerr) * conn :=
    match res with
    | None => (None, c)
    | Some e => if is_disconnected e then (None, c) else wf_eval_err_acts src_result_arm_acts r500 (None, c)
    end.
  Theorem after_result_tie : forall c res r500,
    wf_eval_after_result c res r500 = conn_after_result reason ct_text c res r500.
  Proof.
    intros c res r500. unfold wf_eval_after_result, conn_after_result. destruct res as [e|]; [|reflexivity].
    destruct (is_disconnected e); [reflexivity|].
    unfold src_result_arm_acts, src_conn_loop. cbn [wf_eval_err_acts snd fst]. rewrite write_response_tie.
    destruct (conn_write_response reason ct_text c r500) as [res2 c2]. reflexivity.
  Qed.
End Interp.

(* the same translated statements over the connection machine of Model/Conn.v (C04, C05, C09, C10) *)
From SV Require Import Base.IO Model.Conn.
Section InterpMachine.
  Variable resp : Type.
  Variable resp_code : resp -> N.
  Variable write_out : resp -> bool -> option herr * bytes.

  Definition m_eval_after (a : wr_after) (close one_xx : bool) (c : Conn.conn) : Conn.conn :=
    match a with
    | WASetNoneUnless1xx => if one_xx then c else mk_conn (c_rs c) WS_None (c_in c) (Conn.c_wire c) (c_wshut c)
    | WAShutdownIfClose => if close then Conn.shutdown_write c else c
    end.
  Fixpoint m_eval_afters (l : list wr_after) (close one_xx : bool) (c : Conn.conn) : Conn.conn :=
    match l with
    | [] => c
    | a :: rest => m_eval_afters rest close one_xx (m_eval_after a close one_xx c)
    end.
  Definition m_eval_write_response (c : Conn.conn) (r : resp) : option herr * Conn.conn :=
    match Conn.c_ws c with
    | WS_None => (Some ResponseAlreadySent, c)
    | WS_Shutdown => (Some Disconnected, c)
    | WS_Response =>
        let close := (src_wr_close_lo <=? resp_code r) && (resp_code r <=? src_wr_close_hi) in
        let '(res, accepted) := write_out r close in
        let counter := N.of_nat (length accepted) in
        let c1 := mk_conn (c_rs c) (Conn.c_ws c) (c_in c) (Conn.c_wire c ++ accepted) (c_wshut c) in
        match res with
        | None => (None, m_eval_afters src_wr_ok_branch close (Conn.is_1xx (resp_code r)) c1)
        | Some e => (Some e, if 0 <? counter then Conn.shutdown_write c1 else c1)
        end
    end.

  Theorem machine_write_response_tie :
    forall c r, m_eval_write_response c r = Conn.write_response resp resp_code write_out c r.
  Proof.
    intros c r. unfold m_eval_write_response, Conn.write_response, src_wr_close_lo, src_wr_close_hi, src_wr_ok_branch,
      is_5xx_close, in_range.
    destruct (Conn.c_ws c); try reflexivity.
    destruct (write_out r ((500 <=? resp_code r) && (resp_code r <=? 599))) as [res accepted].
    destruct res as [e|].
    - destruct accepted; reflexivity.
    - cbn [m_eval_afters m_eval_after]. destruct (Conn.is_1xx (resp_code r)); reflexivity.
  Qed.
End InterpMachine.
