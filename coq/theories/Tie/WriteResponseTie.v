(* Tie/WriteResponseTie.v -- HttpConn::write_response (src/http_conn.rs) after its state guard, as TRANSLATED on this run
   (Generated/SourceParams.v: src_wr_close_lo / _hi, src_wr_ok_branch; the translator also checks that the byte counter
   is created per call, that the Err branch shuts the write side down iff that counter is positive, that the result is
   returned, and the two statements of shutdown_write), interpreted over the model's connection, is
   Model/WriteFail.v's conn_write_response for every connection state, writer and response. *)
From Coq Require Import List NArith Bool.
From SV Require Import Base.Bytes Base.SrcAst Model.Headers Model.IOSched Model.Response Model.WriteFail Generated.SourceParams.
Import ListNotations.
Open Scope N_scope.

Lemma write_response_translated : src_problems_write_response = 0%nat.
Proof. reflexivity. Qed.

Section Interp.
  Variable reason : N -> bytes.
  Variable ct_text : nat -> bytes.

  Definition eval_after (a : wr_after) (close one_xx : bool) (c : conn) : conn :=
    match a with
    | WASetNoneUnless1xx => if one_xx then c else mkConn WsNone (c_writer c) (c_wire c) (c_shutdowns c)
    | WAShutdownIfClose => if close then shutdown_write c else c
    end.
  Fixpoint eval_afters (l : list wr_after) (close one_xx : bool) (c : conn) : conn :=
    match l with
    | [] => c
    | a :: rest => eval_afters rest close one_xx (eval_after a close one_xx c)
    end.

  (* guard (tied separately: Tie/ConnGuardTie.v); counter per call; close; write; the two branches; result *)
  Definition eval_write_response (c : conn) (r : response) : option cerr * conn :=
    match c_ws c with
    | WsNone => (Some CeAlreadySent, c)
    | WsShutdown => (Some CeDisconnected, c)
    | WsResponse =>
        let close := (src_wr_close_lo <=? r_code r) && (r_code r <=? src_wr_close_hi) in
        let '(res, acc, w') := write_http_response reason ct_text r close (c_writer c) in
        let counter := N.of_nat (length acc) in          (* AsyncWriteCounter::new: starts at 0 for this call *)
        let c1 := mkConn (c_ws c) w' (c_wire c ++ acc) (c_shutdowns c) in
        match res with
        | None => (None, eval_afters src_wr_ok_branch close (is_1xx (r_code r)) c1)
        | Some e => (Some (CeWrite e), if 0 <? counter then shutdown_write c1 else c1)
        end
    end.

  Theorem write_response_tie : forall c r, eval_write_response c r = conn_write_response reason ct_text c r.
  Proof.
    intros c r. unfold eval_write_response, conn_write_response, src_wr_close_lo, src_wr_close_hi, src_wr_ok_branch, closes.
    destruct (c_ws c); reflexivity.
  Qed.
End Interp.
