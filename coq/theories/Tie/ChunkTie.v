(* Tie/ChunkTie.v -- the hand-written model agrees with what props/srcparams.py read from the repository
   source on this run (Generated/SourceParams.v).  Re-checked on every run against the CURRENT
   source; a changed literal or table breaks the lemma of the model that depends on it. *)
From Coq Require Import List NArith ZArith Bool Lia.
From SV Require Import Base.Bytes Generated.SourceParams.
Import ListNotations.
From SV Require Import Model.IOSched Model.Chunked.

Lemma chunk_translated : src_problems_chunk = 0%nat.
Proof. reflexivity. Qed.

(* ---- src/util.rs copy_chunked_async ---- *)
(* the layout the model assumes: len is stored as one hex digit per buffer cell 0..k-1, most
   significant first, four bits each; CR LF follow; the data window starts right after them and
   leaves room for the closing CR LF; every length the window allows fits into the k digits *)
Definition hex_stores_of (k : nat) : list (N * N) :=
  map (fun i => (N.of_nat i, 4 * N.of_nat (k - 1 - i))) (seq 0 k).

Lemma chunk_layout :
  src_chunk_hex_stores = hex_stores_of 4 /\
  src_chunk_crlf_stores = [(4, 13); (5, 10)] /\
  src_chunk_read_lo = 6 /\
  src_chunk_read_hi + 2 <= src_chunk_buf_len /\
  src_chunk_read_lo < src_chunk_read_hi /\
  Chunked.piece_max_N = src_chunk_read_hi - src_chunk_read_lo /\
  Chunked.piece_max_N < 16 ^ 4 /\
  src_chunk_terminator = Chunked.terminator.
Proof. vm_compute. repeat split; try reflexivity; intro; discriminate. Qed.

(* the model's hex4 is the generated list of digit stores *)
Lemma hex4_is_the_stores len :
  Chunked.hex4 len = map (fun st => Chunked.hex_digit (N.land (N.shiftr len (snd st)) 15)) src_chunk_hex_stores.
Proof. unfold Chunked.hex4. cbn [src_chunk_hex_stores map snd]. rewrite N.shiftr_0_r. reflexivity. Qed.


(* hex_digit: the 16 arms of the source are the model's function on 0..15 (the argument is always masked with
   0xF, so these are all the values it ever sees) *)
Lemma hex_digit_table_tie :
  map fst src_hex_digit_table = map N.of_nat (seq 0 16) /\
  forallb (fun e => Chunked.hex_digit (fst e) =? snd e) src_hex_digit_table = true.
Proof. split; vm_compute; reflexivity. Qed.
