(* Tie/TimeTie.v -- the hand-written model agrees with what props/srcparams.py read from the repository
   source on this run (Generated/SourceParams.v).  Re-checked on every run against the CURRENT
   source; a changed literal or table breaks the lemma of the model that depends on it. *)
From Coq Require Import List NArith ZArith Bool Lia.
From SV Require Import Base.Bytes Generated.SourceParams.
Import ListNotations.
From SV Require Import Model.Time.

Lemma time_translated : src_problems_time = 0%nat.
Proof. reflexivity. Qed.

(* ---- src/time.rs ---- *)
Lemma is_leap_year_tie y : src_is_leap_year y = is_leap_year y.
Proof.
  unfold src_is_leap_year, is_leap_year.
  destruct (Z.rem y 400 =? 0)%Z; [reflexivity|]. destruct (Z.rem y 100 =? 0)%Z; reflexivity.
Qed.

Lemma month_len_days_tie y m : src_month_len_days y m = month_len_days y m.
Proof.
  unfold src_month_len_days, month_len_days.
  assert (H : (m < 1 \/ m = 1 \/ m = 2 \/ m = 3 \/ m = 4 \/ m = 5 \/ m = 6 \/ m = 7 \/ m = 8 \/ m = 9 \/
               m = 10 \/ m = 11 \/ m = 12 \/ m > 12)%Z) by lia.
  repeat (destruct H as [H|H]);
    try (subst m; cbn [Z.eqb Pos.eqb andb];
         destruct (Z.rem y 400 =? 0)%Z; [reflexivity|]; destruct (Z.rem y 100 =? 0)%Z; [reflexivity|];
         destruct (Z.rem y 4 =? 0)%Z; reflexivity).
  - (* m < 1 *)
    repeat match goal with |- context [(m =? ?k)%Z] =>
      replace (m =? k)%Z with false by (symmetry; apply Z.eqb_neq; lia) end.
    cbn [andb]. destruct m as [|p|p]; try lia; reflexivity.
  - (* m > 12 *)
    repeat match goal with |- context [(m =? ?k)%Z] =>
      replace (m =? k)%Z with false by (symmetry; apply Z.eqb_neq; lia) end.
    cbn [andb]. destruct m as [|p|p]; try lia.
    do 4 (destruct p as [p|p|]; try lia; try reflexivity).
Qed.

