(* Tie/ContentTypeTie.v -- the hand-written model agrees with what props/srcparams.py read from the repository
   source on this run (Generated/SourceParams.v).  Re-checked on every run against the CURRENT
   source; a changed literal or table breaks the lemma of the model that depends on it. *)
From Coq Require Import List NArith ZArith Bool Lia.
From SV Require Import Base.Bytes Generated.SourceParams.
Import ListNotations.
From SV Require Import Model.RustStr Model.Headers Model.Request.

Lemma content_type_translated : src_problems_content_type = 0%nat.
Proof. reflexivity. Qed.

(* ---- src/content_type.rs ---- *)
(* the variant names of the source, paired with the constructors of the model *)
Definition ct_names : list (bytes * ctype) :=
  [ ([67;115;115], CtCss); ([67;115;118], CtCsv); ([69;118;101;110;116;83;116;114;101;97;109], CtEventStream);
    ([70;111;114;109;85;114;108;69;110;99;111;100;101;100], CtFormUrlEncoded); ([71;105;102], CtGif);
    ([72;116;109;108], CtHtml); ([74;97;118;97;83;99;114;105;112;116], CtJavaScript); ([74;112;101;103], CtJpeg);
    ([74;115;111;110], CtJson); ([77;97;114;107;100;111;119;110], CtMarkdown);
    ([77;117;108;116;105;112;97;114;116;70;111;114;109], CtMultipartForm); ([78;111;110;101], CtNone);
    ([79;99;116;101;116;83;116;114;101;97;109], CtOctetStream); ([80;100;102], CtPdf);
    ([80;108;97;105;110;84;101;120;116], CtPlainText); ([80;110;103], CtPng); ([83;118;103], CtSvg) ].
Definition ctype_tag (c : ctype) : N :=
  match c with
  | CtCss => 0 | CtCsv => 1 | CtEventStream => 2 | CtFormUrlEncoded => 3 | CtGif => 4 | CtHtml => 5
  | CtJavaScript => 6 | CtJpeg => 7 | CtJson => 8 | CtMarkdown => 9 | CtMultipartForm => 10 | CtNone => 11
  | CtOctetStream => 12 | CtPdf => 13 | CtPlainText => 14 | CtPng => 15 | CtSvg => 16 | CtString _ => 17
  end.
Fixpoint name_lookup (n : bytes) (tbl : list (bytes * ctype)) : option ctype :=
  match tbl with [] => None | (k, c) :: t => if beq k n then Some c else name_lookup n t end.
(* every arm of ContentType::parse, in source order, is the model's table entry *)
Lemma ct_parse_table_tie :
  map (fun e => (fst e, option_map ctype_tag (name_lookup (snd e) ct_names))) src_ct_parse_table
  = map (fun e => (fst e, Some (ctype_tag (snd e)))) ct_table.
Proof. vm_compute. reflexivity. Qed.

(* every text ContentType::as_str can return for a fixed variant is a legal field value
   (printable, no CR / LF, no blank at either end): the hypothesis head_ok of C06 for these tables *)
Definition ct_text_ok (v : bytes) : bool :=
  forallb (fun b => (b =? 9) || ((32 <=? b) && (b <=? 126))) v &&
  match v with [] => true | a :: _ => negb ((a =? 32) || (a =? 9)) end &&
  match rev v with [] => true | a :: _ => negb ((a =? 32) || (a =? 9)) end.
Lemma ct_as_str_table_ok :
  forallb (fun e => ct_text_ok (snd e)) src_ct_as_str_table = true /\
  map fst src_ct_as_str_table = map fst ct_names.
Proof. split; vm_compute; reflexivity. Qed.

