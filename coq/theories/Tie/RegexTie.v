(* Tie/RegexTie.v -- the two `regex!` literals of src/head.rs, re-read from the source on every run
   (props/srcparams.py -> Generated/SourceParams.v: src_request_line_regex, src_field_line_regex),
   denote exactly the line grammars the hand-written recognisers of Model/Head.v implement.
   safe_regex's match_slices succeeds iff the whole line is in the language of the pattern. *)
From Coq Require Import List NArith Bool Lia.
From SV Require Import Base.Bytes Base.Regex Proofs.RegexP Model.Head Spec.Rfc7230 Proofs.HeadGrammarP
  Generated.SourceParams.
Import ListNotations.
Open Scope N_scope.

Lemma regex_translated : src_problems_regex = 0%nat.
Proof. reflexivity. Qed.

(* a positive / negated class equals a byte predicate: finite sweep below 128, constant above *)
Lemma class_pos_eq (q : N -> bool) rs :
  forallb (fun n => Bool.eqb (class_mem false rs (N.of_nat n)) (q (N.of_nat n))) (seq 0 128) = true ->
  forallb (fun r => snd r <? 128) rs = true -> (forall b, 128 <= b -> q b = false) ->
  forall b, class_mem false rs b = q b.
Proof.
  intros Hs Hr Hq. apply pred_eq_by_sweep with (hi := false); [exact Hs | | exact Hq].
  intros b Hb. cbn [class_mem]. now apply in_ranges_above with (bound := 128).
Qed.
Lemma class_neg_eq (q : N -> bool) rs :
  forallb (fun n => Bool.eqb (class_mem true rs (N.of_nat n)) (q (N.of_nat n))) (seq 0 128) = true ->
  forallb (fun r => snd r <? 128) rs = true -> (forall b, 128 <= b -> q b = true) ->
  forall b, class_mem true rs b = q b.
Proof.
  intros Hs Hr Hq. apply pred_eq_by_sweep with (hi := true); [exact Hs | | exact Hq].
  intros b Hb. cbn [class_mem]. now rewrite (in_ranges_above rs 128 b Hr Hb).
Qed.

Ltac hi_tac :=
  repeat match goal with
         | |- context [?x =? ?y] => replace (x =? y) with false by (symmetry; apply N.eqb_neq; lia)
         | |- context [?b <=? ?k] => replace (b <=? k) with false by (symmetry; apply N.leb_gt; lia)
         end;
  rewrite ?andb_false_r; reflexivity.
Lemma is_tchar_hi b : 128 <= b -> is_tchar b = false.
Proof. intros H. unfold is_tchar, is_alpha, is_upper, is_lower, is_digit, in_range. hi_tac. Qed.
Lemma is_ows_hi b : 128 <= b -> is_ows b = false.
Proof. intros H. unfold is_ows. hi_tac. Qed.
Lemma is_nonblank_hi b : 128 <= b -> is_nonblank b = true.
Proof. intros H. unfold is_nonblank, is_ws. hi_tac. Qed.

Lemma forallb_eq {A} (p q : A -> bool) l : (forall x, p x = q x) -> forallb p l = forallb q l.
Proof. intros H. induction l as [|x l IH]; [reflexivity|]. cbn [forallb]. now rewrite H, IH. Qed.

Ltac by_compute := vm_compute; reflexivity.

(* ---- request line:  token-class+ SP nonblank-class+ SP nonblank-class+ ---- *)
Theorem request_line_regex_tie :
  forall line, lang src_request_line_regex line <-> exists m t v, reqline_spec line m t v.
Proof.
  intros line. unfold src_request_line_regex.
  match goal with
  | |- lang (RSeq (RGroup (RPlus (RClass false ?c1))) (RSeq (RChar 32)
            (RSeq (RGroup (RPlus (RClass true ?c2))) (RSeq (RChar 32) (RGroup (RPlus (RClass true ?c3))))))) _ <-> _ =>
    pose proof (class_pos_eq is_tchar c1 ltac:(by_compute) ltac:(by_compute) is_tchar_hi) as T1;
    pose proof (class_neg_eq is_nonblank c2 ltac:(by_compute) ltac:(by_compute) is_nonblank_hi) as T2;
    pose proof (class_neg_eq is_nonblank c3 ltac:(by_compute) ltac:(by_compute) is_nonblank_hi) as T3
  end.
  split.
  - intros H.
    apply lang_seq in H as (m & r1 & -> & Hm & H). apply lang_group, lang_plus_class in Hm as [Hm1 Hm2].
    apply lang_seq in H as (sp1 & r2 & -> & Hs1 & H). apply lang_char in Hs1 as ->.
    apply lang_seq in H as (t & r3 & -> & Ht & H). apply lang_group, lang_plus_class in Ht as [Ht1 Ht2].
    apply lang_seq in H as (sp2 & v & -> & Hs2 & Hv). apply lang_char in Hs2 as ->.
    apply lang_group, lang_plus_class in Hv as [Hv1 Hv2].
    exists m, t, v. unfold reqline_spec. repeat split.
    + unfold is_token. rewrite (forallb_eq _ _ m T1) in Hm2. rewrite Hm2. destruct m; [congruence|reflexivity].
    + unfold nonblank_run. rewrite (forallb_eq _ _ t T2) in Ht2. destruct t; [congruence|exact Ht2].
    + unfold nonblank_run. rewrite (forallb_eq _ _ v T3) in Hv2. destruct v; [congruence|exact Hv2].
  - intros (m & t & v & -> & Hm & Ht & Hv).
    unfold is_token in Hm. apply andb_true_iff in Hm as [Hm1 Hm2].
    unfold nonblank_run in Ht, Hv.
    apply lang_seq. exists m, (32 :: t ++ 32 :: v). split; [reflexivity|]. split.
    + apply lang_group, lang_plus_class. split; [destruct m; [discriminate|discriminate]|].
      now rewrite (forallb_eq _ _ m T1).
    + apply lang_seq. exists [32], (t ++ 32 :: v). split; [reflexivity|]. split; [now apply lang_char|].
      apply lang_seq. exists t, (32 :: v). split; [reflexivity|]. split.
      * apply lang_group, lang_plus_class. destruct t; [discriminate|]. split; [discriminate|].
        now rewrite (forallb_eq _ _ _ T2).
      * apply lang_seq. exists [32], v. split; [reflexivity|]. split; [now apply lang_char|].
        apply lang_group, lang_plus_class. destruct v; [discriminate|]. split; [discriminate|].
        now rewrite (forallb_eq _ _ _ T3).
Qed.

(* so the hand-written recogniser accepts exactly the lines the source pattern matches *)
Corollary request_line_recogniser_is_the_source_regex line :
  lang src_request_line_regex line <-> exists m t v, match_request_line line = Some (m, t, v).
Proof.
  rewrite request_line_regex_tie. split; intros (m & t & v & H); exists m, t, v; now apply match_request_line_iff.
Qed.

(* ---- field line:  token-class+ ":" ows-class* group(any* ) ows-class*  ---- *)
Theorem field_line_regex_tie :
  forall line, lang src_field_line_regex line <-> exists name g, fieldline_spec line name g.
Proof.
  intros line. unfold src_field_line_regex.
  match goal with
  | |- lang (RSeq (RGroup (RPlus (RClass false ?c1))) (RSeq (RChar 58)
            (RSeq (RStar (RClass false ?c2)) (RSeq (RGroup (RStar RAny)) (RStar (RClass false ?c3)))))) _ <-> _ =>
    pose proof (class_pos_eq is_tchar c1 ltac:(by_compute) ltac:(by_compute) is_tchar_hi) as T1;
    pose proof (class_pos_eq is_ows c2 ltac:(by_compute) ltac:(by_compute) is_ows_hi) as T2;
    pose proof (class_pos_eq is_ows c3 ltac:(by_compute) ltac:(by_compute) is_ows_hi) as T3
  end.
  split.
  - intros H.
    apply lang_seq in H as (name & r1 & -> & Hn & H). apply lang_group, lang_plus_class in Hn as [Hn1 Hn2].
    apply lang_seq in H as (c & r2 & -> & Hc & H). apply lang_char in Hc as ->.
    apply lang_seq in H as (a & r3 & -> & Ha & H). apply lang_star_class in Ha.
    apply lang_seq in H as (g & b & -> & _ & Hb). apply lang_star_class in Hb.
    exists name, g. unfold fieldline_spec. exists a, b. repeat split.
    + unfold is_token. rewrite (forallb_eq _ _ name T1) in Hn2. rewrite Hn2. destruct name; [congruence|reflexivity].
    + unfold is_ows_run. now rewrite <- (forallb_eq _ _ a T2).
    + unfold is_ows_run. now rewrite <- (forallb_eq _ _ b T3).
  - intros (name & g & a & b & -> & Hn & Ha & Hb).
    unfold is_token in Hn. apply andb_true_iff in Hn as [Hn1 Hn2]. unfold is_ows_run in Ha, Hb.
    apply lang_seq. exists name, (58 :: a ++ g ++ b). split; [reflexivity|]. split.
    + apply lang_group, lang_plus_class. split; [destruct name; discriminate|]. now rewrite (forallb_eq _ _ name T1).
    + apply lang_seq. exists [58], (a ++ g ++ b). split; [reflexivity|]. split; [now apply lang_char|].
      apply lang_seq. exists a, (g ++ b). split; [reflexivity|]. split.
      * apply lang_star_class. now rewrite (forallb_eq _ _ a T2).
      * apply lang_seq. exists g, b. split; [reflexivity|]. split; [apply lang_group, lang_star_any|].
        apply lang_star_class. now rewrite (forallb_eq _ _ b T3).
Qed.

Corollary field_line_recogniser_accepts_what_the_source_regex_matches line :
  lang src_field_line_regex line -> exists name g0, match_header_line line = Some (name, g0).
Proof.
  intros H. apply field_line_regex_tie in H as (name & g & Hs).
  destruct (fieldline_value_unique line name g Hs) as (g0 & Hm & _). eauto.
Qed.
