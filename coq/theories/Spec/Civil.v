(* Spec/Civil.v -- the proleptic Gregorian calendar, stated declaratively, and the reference
   reader of the fixed-width time formats.  Definitions only; proofs are in Proofs/TimeP.v.

   Declarative core (nothing here is transcribed from src/time.rs):
     leap rule          : divisible by 4 and not by 100, or divisible by 400
     month-length table : 31 28 31 30 31 30 31 31 30 31 30 31, February 29 in leap years
     abs_days y m d     : (sum of the lengths of the years between 1970 and y)
                          + (sum of the lengths of the months of y before m) + (d - 1)
     valid date-time    : 1<=m<=12, 1<=d<=length of month, 0<=h<24, 0<=mi<60, 0<=s<60
     secs_of_civil      : 86400 * abs_days + 3600 h + 60 mi + s
   The closed forms ([*_fast]) exist only so that the extracted oracle runs in O(1); TimeP proves
   them equal to the sums. *)
From Coq Require Import ZArith.
From SV Require Import Base.Bytes.
Open Scope Z_scope.

Record dt := mkdt { year : Z; month : Z; day : Z; hour : Z; minute : Z; sec : Z }.

Definition dt_eqb (a b : dt) : bool :=
  (year a =? year b) && (month a =? month b) && (day a =? day b) &&
  (hour a =? hour b) && (minute a =? minute b) && (sec a =? sec b).

(* ---- leap rule and month table ---- *)
Definition leap (y : Z) : bool :=
  ((y mod 4 =? 0) && negb (y mod 100 =? 0)) || (y mod 400 =? 0).
Definition ylen (y : Z) : Z := if leap y then 366 else 365.
(* the month-length table *)
Definition mlen (y m : Z) : Z :=
  match m with
  | 1 => 31 | 2 => if leap y then 29 else 28 | 3 => 31 | 4 => 30 | 5 => 31 | 6 => 30
  | 7 => 31 | 8 => 31 | 9 => 30 | 10 => 31 | 11 => 30 | 12 => 31
  | _ => 0
  end.

(* ---- day number since 1970-01-01, as sums ---- *)
Fixpoint zseq (start : Z) (n : nat) : list Z :=
  match n with O => [] | S k => start :: zseq (start + 1) k end.
Definition sumZ (l : list Z) : Z := fold_right Z.add 0 l.

(* days from 1970-01-01 to y-01-01 (negative before 1970) *)
Definition dby (y : Z) : Z :=
  if 1970 <=? y then sumZ (map ylen (zseq 1970 (Z.to_nat (y - 1970))))
  else - sumZ (map ylen (zseq y (Z.to_nat (1970 - y)))).
(* days from y-01-01 to y-m-01 *)
Definition dbm (y m : Z) : Z := sumZ (map (mlen y) (zseq 1 (Z.to_nat (m - 1)))).
Definition abs_days (y m d : Z) : Z := dby y + dbm y m + (d - 1).

Definition valid_date (y m d : Z) : Prop := 1 <= m <= 12 /\ 1 <= d <= mlen y m.
Definition valid_dt (t : dt) : Prop :=
  valid_date (year t) (month t) (day t) /\ 0 <= hour t < 24 /\ 0 <= minute t < 60 /\ 0 <= sec t < 60.
Definition valid_dateb (y m d : Z) : bool :=
  (1 <=? m) && (m <=? 12) && (1 <=? d) && (d <=? mlen y m).
Definition valid_dtb (t : dt) : bool :=
  valid_dateb (year t) (month t) (day t) && (0 <=? hour t) && (hour t <? 24) &&
  (0 <=? minute t) && (minute t <? 60) && (0 <=? sec t) && (sec t <? 60).

Definition tod (t : dt) : Z := 3600 * hour t + 60 * minute t + sec t.
Definition secs_of_civil (t : dt) : Z := 86400 * abs_days (year t) (month t) (day t) + tod t.

(* ---- closed forms (proved equal to the sums) ---- *)
Definition Lf (x : Z) : Z := x / 4 - x / 100 + x / 400.
Definition dby_fast (y : Z) : Z := 365 * (y - 1970) + (Lf (y - 1) - 477).
Definition dbm_fast (y m : Z) : Z :=
  match m with
  | 1 => 0 | 2 => 31 | 3 => 59 | 4 => 90 | 5 => 120 | 6 => 151 | 7 => 181 | 8 => 212
  | 9 => 243 | 10 => 273 | 11 => 304 | 12 => 334 | _ => 0 end
  + (if (2 <? m) && leap y then 1 else 0).
Definition abs_days_fast (y m d : Z) : Z := dby_fast y + dbm_fast y m + (d - 1).
Definition secs_fast (t : dt) : Z := 86400 * abs_days_fast (year t) (month t) (day t) + tod t.

(* ---- O(1) successor of a date, used to walk every day ---- *)
Definition next_day (x : Z * Z * Z) : Z * Z * Z :=
  let '(y, m, d) := x in
  if d <? mlen y m then (y, m, d + 1)
  else if m <? 12 then (y, m + 1, 1) else (y + 1, 1, 1).
Definition epoch_date : Z * Z * Z := (1970, 1, 1).
Fixpoint iter_days (n : nat) (x : Z * Z * Z) : Z * Z * Z :=
  match n with O => x | S k => iter_days k (next_day x) end.
(* date + second of day -> date-time *)
Definition at_sod (x : Z * Z * Z) (sod : Z) : dt :=
  let '(y, m, d) := x in mkdt y m d (sod / 3600) ((sod mod 3600) / 60) (sod mod 60).

(* ---- reference readers of the fixed-width renderings ---- *)
Definition dig (b : N) : option Z := if is_digit b then Some (Z.of_N (b - 48)) else None.
Definition rd2 (a b : N) : option Z :=
  match dig a, dig b with Some x, Some y => Some (10 * x + y) | _, _ => None end.
Definition rd4 (a b c d : N) : option Z :=
  match rd2 a b, rd2 c d with Some x, Some y => Some (100 * x + y) | _, _ => None end.
Definition mk6 (y mo d h mi s : option Z) : option dt :=
  match y, mo, d, h, mi, s with
  | Some y, Some mo, Some d, Some h, Some mi, Some s => Some (mkdt y mo d h mi s)
  | _, _, _, _, _, _ => None
  end.
(* YYYY-MM-DDTHH:MM:SSZ : exactly 20 bytes, digits and separators at fixed positions *)
Definition parse_iso (s : bytes) : option dt :=
  match s with
  | [y1; y2; y3; y4; c1; m1; m2; c2; d1; d2; c3; h1; h2; c4; i1; i2; c5; s1; s2; c6] =>
      if ((c1 =? 45) && (c2 =? 45) && (c3 =? 84) && (c4 =? 58) && (c5 =? 58) && (c6 =? 90))%N
      then mk6 (rd4 y1 y2 y3 y4) (rd2 m1 m2) (rd2 d1 d2) (rd2 h1 h2) (rd2 i1 i2) (rd2 s1 s2)
      else None
  | _ => None
  end.
(* YYYYMMDDTHHMMSSZ (log file names) : exactly 16 bytes *)
Definition parse_compact (s : bytes) : option dt :=
  match s with
  | [y1; y2; y3; y4; m1; m2; d1; d2; c3; h1; h2; i1; i2; s1; s2; c6] =>
      if ((c3 =? 84) && (c6 =? 90))%N
      then mk6 (rd4 y1 y2 y3 y4) (rd2 m1 m2) (rd2 d1 d2) (rd2 h1 h2) (rd2 i1 i2) (rd2 s1 s2)
      else None
  | _ => None
  end.

Definition opt_dt_eqb (a b : option dt) : bool := option_beq dt_eqb a b.

(* ---- oracles: boolean forms of the conclusions of the C16 theorems ---- *)
(* new: the observed broken-down time is valid and denotes the instant s *)
Definition oracle_new (s : Z) (obs : dt) : bool := valid_dtb obs && (secs_fast obs =? s).
(* add: the observed result is valid and denotes (instant of t) + d *)
Definition oracle_add (t : dt) (d : Z) (obs : dt) : bool :=
  valid_dtb obs && (secs_fast obs =? secs_fast t + d).
(* rendering: 20 bytes that read back as t *)
Definition oracle_iso (t : dt) (obs : bytes) : bool :=
  (N.of_nat (length obs) =? 20)%N && opt_dt_eqb (parse_iso obs) (Some t).
(* rendering of instant s: 20 bytes that read back as a valid date-time denoting s *)
Definition oracle_iso_at (s : Z) (obs : bytes) : bool :=
  match parse_iso obs with
  | Some t => (N.of_nat (length obs) =? 20)%N && oracle_new s t
  | None => false
  end.
