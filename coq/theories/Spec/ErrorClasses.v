(* Spec/ErrorClasses.v -- the documented class of every internal error value (written from the
   property statement and the library documentation, NOT generated from the code). *)
From SV Require Import Base.Bytes Model.Tables.
Import ListNotations.

Definition s (l : list N) : bytes := l.

(* variant names as byte strings *)
Definition n_AlreadyGotBody := [65;108;114;101;97;100;121;71;111;116;66;111;100;121].
Definition n_BodyNotAvailable := [66;111;100;121;78;111;116;65;118;97;105;108;97;98;108;101].
Definition n_BodyNotRead := [66;111;100;121;78;111;116;82;101;97;100].
Definition n_BodyNotUtf8 := [66;111;100;121;78;111;116;85;116;102;56].
Definition n_BodyTooLong := [66;111;100;121;84;111;111;76;111;110;103].
Definition n_CacheDirNotConfigured := [67;97;99;104;101;68;105;114;78;111;116;67;111;110;102;105;103;117;114;101;100].
Definition n_Disconnected := [68;105;115;99;111;110;110;101;99;116;101;100].
Definition n_DuplicateContentLengthHeader := [68;117;112;108;105;99;97;116;101;67;111;110;116;101;110;116;76;101;110;103;116;104;72;101;97;100;101;114].
Definition n_DuplicateContentTypeHeader := [68;117;112;108;105;99;97;116;101;67;111;110;116;101;110;116;84;121;112;101;72;101;97;100;101;114].
Definition n_DuplicateTransferEncodingHeader := [68;117;112;108;105;99;97;116;101;84;114;97;110;115;102;101;114;69;110;99;111;100;105;110;103;72;101;97;100;101;114].
Definition n_ErrorReadingFile := [69;114;114;111;114;82;101;97;100;105;110;103;70;105;108;101].
Definition n_ErrorReadingResponseBody := [69;114;114;111;114;82;101;97;100;105;110;103;82;101;115;112;111;110;115;101;66;111;100;121].
Definition n_ErrorSavingFile := [69;114;114;111;114;83;97;118;105;110;103;70;105;108;101].
Definition n_HandlerDeadlineExceeded := [72;97;110;100;108;101;114;68;101;97;100;108;105;110;101;69;120;99;101;101;100;101;100].
Definition n_HeadTooLong := [72;101;97;100;84;111;111;76;111;110;103].
Definition n_InvalidContentLength := [73;110;118;97;108;105;100;67;111;110;116;101;110;116;76;101;110;103;116;104].
Definition n_MalformedCookieHeader := [77;97;108;102;111;114;109;101;100;67;111;111;107;105;101;72;101;97;100;101;114].
Definition n_MalformedHeaderLine := [77;97;108;102;111;114;109;101;100;72;101;97;100;101;114;76;105;110;101].
Definition n_MalformedPath := [77;97;108;102;111;114;109;101;100;80;97;116;104].
Definition n_MalformedRequestLine := [77;97;108;102;111;114;109;101;100;82;101;113;117;101;115;116;76;105;110;101].
Definition n_MissingRequestLine := [77;105;115;115;105;110;103;82;101;113;117;101;115;116;76;105;110;101].
Definition n_ResponseAlreadySent := [82;101;115;112;111;110;115;101;65;108;114;101;97;100;121;83;101;110;116].
Definition n_ResponseNotSent := [82;101;115;112;111;110;115;101;78;111;116;83;101;110;116].
Definition n_TimerThreadNotStarted := [84;105;109;101;114;84;104;114;101;97;100;78;111;116;83;116;97;114;116;101;100].
Definition n_Truncated := [84;114;117;110;99;97;116;101;100].
Definition n_UnsupportedProtocol := [85;110;115;117;112;112;111;114;116;101;100;80;114;111;116;111;99;111;108].
Definition n_UnsupportedTransferEncoding := [85;110;115;117;112;112;111;114;116;101;100;84;114;97;110;115;102;101;114;69;110;99;111;100;105;110;103].
Definition n_UnwritableResponse := [85;110;119;114;105;116;97;98;108;101;82;101;115;112;111;110;115;101].

Definition spec_classes : list (bytes * eclass) := [
  (n_AlreadyGotBody, ServerErr);
  (n_BodyNotAvailable, ServerErr);
  (n_BodyNotRead, ServerErr);
  (n_BodyNotUtf8, ClientErr 400);
  (n_BodyTooLong, ClientErr 413);
  (n_CacheDirNotConfigured, ServerErr);
  (n_Disconnected, DropConn);
  (n_DuplicateContentLengthHeader, ServerErr);
  (n_DuplicateContentTypeHeader, ServerErr);
  (n_DuplicateTransferEncodingHeader, ServerErr);
  (n_ErrorReadingFile, ServerErr);
  (n_ErrorReadingResponseBody, ServerErr);
  (n_ErrorSavingFile, ServerErr);
  (n_HandlerDeadlineExceeded, ServerErr);
  (n_HeadTooLong, ClientErr 431);
  (n_InvalidContentLength, ClientErr 400);
  (n_MalformedCookieHeader, ClientErr 400);
  (n_MalformedHeaderLine, ClientErr 400);
  (n_MalformedPath, ClientErr 400);
  (n_MalformedRequestLine, ClientErr 400);
  (n_MissingRequestLine, ClientErr 400);
  (n_ResponseAlreadySent, ServerErr);
  (n_ResponseNotSent, ServerErr);
  (n_TimerThreadNotStarted, ServerErr);
  (n_Truncated, ClientErr 400);
  (n_UnsupportedProtocol, ClientErr 505);
  (n_UnsupportedTransferEncoding, ClientErr 400);
  (n_UnwritableResponse, ServerErr)
].

Definition str_internal : bytes :=   (* "Internal server error" *)
  [73;110;116;101;114;110;97;108;32;115;101;114;118;101;114;32;101;114;114;111;114].
