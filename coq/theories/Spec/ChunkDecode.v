(* Spec/ChunkDecode.v -- independent decoder for the chunked transfer coding, RFC 7230 section 4.1,
   strict: chunk = 1*HEXDIG CRLF chunk-data CRLF ; last-chunk = 1*"0" CRLF ; no chunk extensions,
   no trailer part; the final CRLF follows the last-chunk directly.
   Written from the RFC grammar, not from the encoder.  Definitions only. *)
From SV Require Import Base.Bytes.

Definition unhexd (c : N) : option N :=
  if (48 <=? c) && (c <=? 57) then Some (c - 48)
  else if (97 <=? c) && (c <=? 102) then Some (c - 87)
  else if (65 <=? c) && (c <=? 70) then Some (c - 55) else None.
Definition is_hex (c : N) : bool := match unhexd c with Some _ => true | None => false end.

(* 1*HEXDIG, value and the rest of the input *)
Fixpoint read_hex (acc : N) (seen : bool) (l : bytes) : option (N * bytes) :=
  match l with
  | c :: t => match unhexd c with
              | Some d => read_hex (16 * acc + d) true t
              | None => if seen then Some (acc, l) else None
              end
  | [] => if seen then Some (acc, []) else None
  end.

(* exactly n bytes, or None when fewer are present (n may be astronomically large) *)
Fixpoint take_n (n : N) (l : bytes) : option (bytes * bytes) :=
  if n =? 0 then Some ([], l) else
  match l with
  | [] => None
  | x :: t => match take_n (n - 1) t with
              | Some (a, b) => Some (x :: a, b)
              | None => None
              end
  end.

Inductive dres :=
| DComplete (chunks : list bytes) (rest : bytes)   (* the non-empty chunks in order; bytes after the final CRLF *)
| DIncomplete                                       (* a proper prefix of something that could still become valid *)
| DMalformed.

(* what is left is a prefix of CRLF (so more input could complete it) *)
Definition crlf_prefix (l : bytes) : bool :=
  match l with [] => true | [a] => a =? 13 | _ => false end.
Definition expect_crlf (l : bytes) : option bytes :=
  match l with a :: b :: t => if (a =? 13) && (b =? 10) then Some t else None | _ => None end.

Fixpoint decode_fuel (fuel : nat) (l : bytes) : dres :=
  match fuel with
  | O => DIncomplete
  | S f =>
    match l with
    | [] => DIncomplete
    | _ :: _ =>
      match read_hex 0 false l with
      | None => DMalformed
      | Some (n, l1) =>
        match expect_crlf l1 with
        | None => if crlf_prefix l1 then DIncomplete else DMalformed
        | Some l2 =>
          if n =? 0 then
            match expect_crlf l2 with
            | Some rest => DComplete [] rest
            | None => if crlf_prefix l2 then DIncomplete else DMalformed
            end
          else
            match take_n n l2 with
            | None => DIncomplete
            | Some (data, l3) =>
              match expect_crlf l3 with
              | None => if crlf_prefix l3 then DIncomplete else DMalformed
              | Some l4 =>
                match decode_fuel f l4 with
                | DComplete cs rest => DComplete (data :: cs) rest
                | other => other
                end
              end
            end
        end
      end
    end
  end.

(* every chunk consumes at least one byte, so this fuel always suffices (ChunkedP.decode_fuel_indep) *)
Definition decode_chunks (l : bytes) : dres := decode_fuel (S (length l)) l.

(* a complete chunked message and nothing else *)
Definition decode_chunked (l : bytes) : dres :=
  match decode_chunks l with
  | DComplete cs [] => DComplete cs []
  | DComplete _ (_ :: _) => DMalformed
  | other => other
  end.

Definition dres_beq (a b : dres) : bool :=
  match a, b with
  | DComplete c1 r1, DComplete c2 r2 => list_beq beq c1 c2 && beq r1 r2
  | DIncomplete, DIncomplete => true
  | DMalformed, DMalformed => true
  | _, _ => false
  end.
