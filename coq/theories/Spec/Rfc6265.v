(* Spec/Rfc6265.v -- RFC 6265, independent of the code under verification.
   (a) section 4.2.1 cookie-string: how a user agent renders cookie pairs into Cookie header fields,
       generalised with the deviations servers must tolerate (stray ";", blanks around segments,
       several Cookie fields), and the "last pair wins" reading of a pair list;
   (b) section 5.2: the user agent's Set-Cookie parsing algorithm (5.2 steps 1-5, the attribute loop,
       5.2.2 Max-Age, 5.2.3 Domain, 5.2.4 Path, 5.2.5 Secure, 5.2.6 HttpOnly; SameSite as in
       draft-ietf-httpbis-rfc6265bis 5.x; 5.2.1 Expires: the value emitted by servlin is an
       ISO-8601 stamp, which the 5.1.1 cookie-date algorithm rejects (no month name), so the
       cookie-av is ignored -- the parsed record has no expiry field and DESIGN section 7 keeps
       Expires outside the statement).
   Definitions only; proofs are in Proofs/CookieP.v. *)
From Coq Require Import ZArith.
From SV Require Import Base.Bytes.

(* ---------------------------------------------------------------------------------------- *)
(* character classes (RFC 6265 section 4.1.1, RFC 2616 token)                                 *)

(* cookie-octet = %x21 / %x23-2B / %x2D-3A / %x3C-5B / %x5D-7E *)
Definition is_cookie_octet (b : N) : bool :=
  (b =? 33) || in_range 35 43 b || in_range 45 58 b || in_range 60 91 b || in_range 93 126 b.
(* the statement's value alphabet: cookie-octets plus DQUOTE (values may be quoted) *)
Definition is_value_byte (b : N) : bool := is_cookie_octet b || (b =? 34).
Definition is_cookie_name (s : bytes) : bool := is_token s.
Definition is_cookie_value (s : bytes) : bool := forallb is_value_byte s.
(* blanks a sender may put around segments: SP / HTAB *)
Definition is_blank (b : N) : bool := (b =? 32) || (b =? 9).
(* path-value / extension-av byte: any CHAR except CTLs or ";" *)
Definition is_av_byte (b : N) : bool := in_range 32 126 b && negb (b =? 59).
(* domain-value bytes: letters, digits, "-", "." *)
Definition is_domain_byte (b : N) : bool := is_alpha b || is_digit b || (b =? 45) || (b =? 46).

(* ---------------------------------------------------------------------------------------- *)
(* (a) rendering of Cookie header fields                                                       *)

Inductive seg_core :=
| SPair (name value : bytes)       (* cookie-pair = cookie-name "=" cookie-value *)
| SEmpty                           (* a stray ";" leaves an empty segment *)
| SNoEq (text : bytes).            (* a mutation: a segment without "=" *)
Record seg := mkseg { seg_lead : bytes; seg_core_of : seg_core; seg_trail : bytes }.
Definition field := list seg.      (* one Cookie header field: segments separated by ";" *)

Definition render_core (c : seg_core) : bytes :=
  match c with SPair n v => n ++ 61 :: v | SEmpty => [] | SNoEq t => t end.
Definition render_seg (s : seg) : bytes := seg_lead s ++ render_core (seg_core_of s) ++ seg_trail s.
Fixpoint join_semis (l : list bytes) : bytes :=
  match l with [] => [] | [x] => x | x :: r => x ++ 59 :: join_semis r end.
Definition render_field (f : field) : bytes := join_semis (map render_seg f).
Definition render_fields (fs : list field) : list bytes := map render_field fs.

(* the pairs a field list carries, in order *)
Definition pairs_of_seg (s : seg) : list (bytes * bytes) :=
  match seg_core_of s with SPair n v => [(n, v)] | _ => [] end.
Definition pairs_of_field (f : field) : list (bytes * bytes) := flat_map pairs_of_seg f.
Definition pairs_of_fields (fs : list field) : list (bytes * bytes) := flat_map pairs_of_field fs.

(* RFC 6265 4.2.1 proper: cookie-string = cookie-pair *( ";" SP cookie-pair ) *)
Definition cookie_string_field (pairs : list (bytes * bytes)) : field :=
  match pairs with
  | [] => []
  | (n, v) :: r => mkseg [] (SPair n v) [] :: map (fun p => mkseg [32] (SPair (fst p) (snd p)) []) r
  end.

(* well-formedness of the generated structure *)
Definition seg_ok (s : seg) : bool :=
  forallb is_blank (seg_lead s) && forallb is_blank (seg_trail s) &&
  match seg_core_of s with
  | SPair n v => is_cookie_name n && is_cookie_value v
  | SEmpty => true
  | SNoEq _ => false
  end.
Definition fields_ok (fs : list field) : bool :=
  forallb (fun f => negb (match f with [] => true | _ => false end) && forallb seg_ok f) fs.
(* a non-empty segment without "=" (token text) *)
Definition seg_is_noeq (s : seg) : bool :=
  forallb is_blank (seg_lead s) && forallb is_blank (seg_trail s) &&
  match seg_core_of s with SNoEq t => is_token t | _ => false end.

(* "later duplicates override earlier ones": the value of name n is that of the LAST pair named n *)
Fixpoint last_value (n : bytes) (pairs : list (bytes * bytes)) : option bytes :=
  match pairs with
  | [] => None
  | (k, v) :: r =>
      match last_value n r with
      | Some v' => Some v'
      | None => if beq k n then Some v else None
      end
  end.
Fixpoint lookup (n : bytes) (m : list (bytes * bytes)) : option bytes :=
  match m with [] => None | (k, v) :: r => if beq k n then Some v else lookup n r end.
Fixpoint keys_nodup (m : list (bytes * bytes)) : bool :=
  match m with
  | [] => true
  | (k, _) :: r => negb (existsb (fun p => beq (fst p) k) r) && keys_nodup r
  end.
Definition opt_bytes_eqb := option_beq beq.
(* oracle (request side): the observed map has distinct keys and, on every name occurring in the
   pairs or in the map, answers what "last pair wins" answers *)
Definition map_is_last_wins (pairs m : list (bytes * bytes)) : bool :=
  keys_nodup m &&
  forallb (fun p => opt_bytes_eqb (lookup (fst p) m) (last_value (fst p) pairs)) pairs &&
  forallb (fun q => opt_bytes_eqb (last_value (fst q) pairs) (Some (snd q))) m.

(* ---------------------------------------------------------------------------------------- *)
(* (b) RFC 6265 section 5.2: parsing a set-cookie-string                                       *)

Inductive same_site := Strict | Lax | SSNone.
Record sc_parsed := mkparsed {
  p_name : bytes; p_value : bytes;
  p_domain : option bytes;        (* Some d: cookie-domain (5.2.3); None: no Domain attribute *)
  p_path : option bytes;          (* Some p: cookie-path (5.2.4); None: the default-path applies *)
  p_max_age : option Z;           (* delta-seconds (5.2.2) *)
  p_secure : bool; p_http_only : bool;
  p_same_site : option same_site  (* None: "Default" enforcement *)
}.

(* text up to the first [c]; and what follows that [c], if there is one *)
Fixpoint break_at (c : N) (s : bytes) : bytes * option bytes :=
  match s with
  | [] => ([], None)
  | b :: t => if b =? c then ([], Some t)
              else let '(h, r) := break_at c t in (b :: h, r)
  end.
(* "remove any leading or trailing WSP characters"; WSP = SP / HTAB *)
Fixpoint drop_wsp (s : bytes) : bytes :=
  match s with b :: t => if is_blank b then drop_wsp t else s | [] => [] end.
Definition trim_wsp (s : bytes) : bytes := rev (drop_wsp (rev (drop_wsp s))).
(* the pieces between ";" characters *)
Fixpoint split_semis (s : bytes) : list bytes :=
  match s with
  | [] => [[]]
  | b :: t => if b =? 59 then [] :: split_semis t
              else match split_semis t with h :: r => (b :: h) :: r | [] => [[b]] end
  end.

Definition set_domain d (p : sc_parsed) := mkparsed (p_name p) (p_value p) d (p_path p) (p_max_age p) (p_secure p) (p_http_only p) (p_same_site p).
Definition set_path x (p : sc_parsed) := mkparsed (p_name p) (p_value p) (p_domain p) x (p_max_age p) (p_secure p) (p_http_only p) (p_same_site p).
Definition set_max_age x (p : sc_parsed) := mkparsed (p_name p) (p_value p) (p_domain p) (p_path p) x (p_secure p) (p_http_only p) (p_same_site p).
Definition set_secure (p : sc_parsed) := mkparsed (p_name p) (p_value p) (p_domain p) (p_path p) (p_max_age p) true (p_http_only p) (p_same_site p).
Definition set_http_only (p : sc_parsed) := mkparsed (p_name p) (p_value p) (p_domain p) (p_path p) (p_max_age p) (p_secure p) true (p_same_site p).
Definition set_same_site x (p : sc_parsed) := mkparsed (p_name p) (p_value p) (p_domain p) (p_path p) (p_max_age p) (p_secure p) (p_http_only p) x.

Definition A_EXPIRES : bytes := [101; 120; 112; 105; 114; 101; 115].      (* "expires" *)
Definition A_MAX_AGE : bytes := [109; 97; 120; 45; 97; 103; 101].   (* "max-age" *)
Definition A_DOMAIN : bytes := [100; 111; 109; 97; 105; 110].       (* "domain" *)
Definition A_PATH : bytes := [112; 97; 116; 104].                  (* "path" *)
Definition A_SECURE : bytes := [115; 101; 99; 117; 114; 101].       (* "secure" *)
Definition A_HTTPONLY : bytes := [104; 116; 116; 112; 111; 110; 108; 121].   (* "httponly" *)
Definition A_SAMESITE : bytes := [115; 97; 109; 101; 115; 105; 116; 101].   (* "samesite" *)
Definition V_STRICT : bytes := [115; 116; 114; 105; 99; 116].      (* "strict" *)
Definition V_LAX : bytes := [108; 97; 120].                    (* "lax" *)
Definition V_NONE : bytes := [110; 111; 110; 101].             (* "none" *)

(* 5.2.2: first character DIGIT or "-", remainder all DIGITs; delta-seconds = the integer *)
Definition parse_delta_seconds (v : bytes) : option Z :=
  match v with
  | [] => None
  | c :: r =>
      if (c =? 45) then
        (if forallb is_digit r then
           match r with [] => Some 0%Z | _ => match undec r with Some n => Some (- Z.of_N n)%Z | None => None end end
         else None)
      else if is_digit c && forallb is_digit r then
        match undec v with Some n => Some (Z.of_N n) | None => None end
      else None
  end.

(* 5.2.1 - 5.2.6 (+ SameSite): process one cookie-av; later attributes of the same name override
   earlier ones (5.3 uses "the last attribute in the cookie-attribute-list") *)
Definition process_av (an av : bytes) (p : sc_parsed) : sc_parsed :=
  if eq_ic an A_EXPIRES then p                                   (* 5.2.1: not a cookie-date: ignored *)
  else if eq_ic an A_MAX_AGE then
    match parse_delta_seconds av with Some d => set_max_age (Some d) p | None => p end
  else if eq_ic an A_DOMAIN then
    match av with
    | [] => p                                                    (* 5.2.3: empty: ignore the cookie-av *)
    | c :: r => set_domain (Some (map lower (if c =? 46 then r else av))) p
    end
  else if eq_ic an A_PATH then
    match av with
    | 47 :: _ => set_path (Some av) p                            (* 5.2.4 *)
    | _ => set_path None p                                       (* empty or not "/": default-path *)
    end
  else if eq_ic an A_SECURE then set_secure p
  else if eq_ic an A_HTTPONLY then set_http_only p
  else if eq_ic an A_SAMESITE then
    set_same_site (if eq_ic av V_STRICT then Some Strict else if eq_ic av V_LAX then Some Lax
                   else if eq_ic av V_NONE then Some SSNone else None) p
  else p.                                                        (* unknown attribute: ignored *)

(* one cookie-av: steps 4 and 5 of the attribute loop *)
Definition process_cookie_av (cookie_av : bytes) (p : sc_parsed) : sc_parsed :=
  let '(an, av) := match break_at 61 cookie_av with (n, Some v) => (n, v) | (n, None) => (n, []) end in
  process_av (trim_wsp an) (trim_wsp av) p.

(* section 5.2 *)
Definition parse_set_cookie (s : bytes) : option sc_parsed :=
  (* step 1: name-value-pair = up to the first ";", unparsed-attributes = the rest *)
  let '(nv, unparsed) := break_at 59 s in
  (* steps 2, 3: no "=" => ignore the set-cookie-string *)
  match break_at 61 nv with
  | (_, None) => None
  | (name, Some value) =>
      (* step 4 *)
      let name := trim_wsp name in
      let value := trim_wsp value in
      (* step 5 *)
      match name with
      | [] => None
      | _ =>
          let p0 := mkparsed name value None None None false false None in
          (* attribute loop: discard the ";", take the text up to the next ";", process, repeat --
             i.e. process the pieces between ";" characters from left to right *)
          match unparsed with
          | None => Some p0
          | Some rest => Some (fold_left (fun p av => process_cookie_av av p) (split_semis rest) p0)
          end
      end
  end.

(* boolean equality of parse results, for the oracle *)
Definition same_site_eqb (a b : same_site) : bool :=
  match a, b with Strict, Strict | Lax, Lax | SSNone, SSNone => true | _, _ => false end.
Definition parsed_eqb (a b : sc_parsed) : bool :=
  beq (p_name a) (p_name b) && beq (p_value a) (p_value b) &&
  opt_bytes_eqb (p_domain a) (p_domain b) && opt_bytes_eqb (p_path a) (p_path b) &&
  option_beq Z.eqb (p_max_age a) (p_max_age b) &&
  Bool.eqb (p_secure a) (p_secure b) && Bool.eqb (p_http_only a) (p_http_only b) &&
  option_beq same_site_eqb (p_same_site a) (p_same_site b).
