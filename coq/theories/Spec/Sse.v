(* Spec/Sse.v -- reference parser for the text/event-stream format, after the WHATWG HTML
   standard, section 9.2.5 "Parsing an event stream" and 9.2.6 "Interpreting an event stream".
   Independent of Model/Event.v.  Works on bytes: the format's structural characters (CR, LF,
   colon, space) are ASCII and never occur inside a UTF-8 multi-byte sequence, so splitting the
   UTF-8 bytes equals splitting the decoded text.  The optional leading BOM, the `id` and `retry`
   fields (kept only in the field log) and the last-event-id are not tracked.

     stream = [bom] *event ; event = *(comment / field) end-of-line
     end-of-line = CRLF / CR / LF           -- a line without end-of-line at the end is dropped

   Definitions only. *)
From SV Require Import Base.Bytes.

(* linear-time list reversal (List.rev is quadratic once extracted) *)
Definition frev {A} (l : list A) : list A := rev_append l [].

(* line splitter as a streaming automaton: [cur] = current line reversed, [after_cr] = the
   previous byte was a CR that ended a line (a LF that follows is part of the same terminator) *)
Fixpoint sse_lines_aux (cur : bytes) (after_cr : bool) (s : bytes) : list bytes :=
  match s with
  | [] => []
  | c :: t =>
      if c =? 10 then
        if after_cr then sse_lines_aux cur false t
        else frev cur :: sse_lines_aux [] false t
      else if c =? 13 then frev cur :: sse_lines_aux [] true t
      else sse_lines_aux (c :: cur) false t
  end.
Definition sse_lines (s : bytes) : list bytes := sse_lines_aux [] false s.

(* a line is split at its first colon; one leading space of the value is removed *)
Fixpoint split_colon (l : bytes) : option (bytes * bytes) :=
  match l with
  | [] => None
  | c :: t => if c =? 58 then Some ([], t)
              else match split_colon t with Some (a, b) => Some (c :: a, b) | None => None end
  end.
Definition strip_space (v : bytes) : bytes := match v with 32 :: t => t | _ => v end.

Inductive sse_line :=
| LBlank
| LComment
| LField (name value : bytes).

Definition classify_line (l : bytes) : sse_line :=
  match l with
  | [] => LBlank
  | 58 :: _ => LComment
  | _ => match split_colon l with
         | Some (name, v) => LField name (strip_space v)
         | None => LField l []
         end
  end.

Definition f_event : bytes := [101; 118; 101; 110; 116].   (* "event" *)
Definition f_data : bytes := [100; 97; 116; 97].           (* "data" *)

Record sse_state := mk_sse {
  s_data : bytes;                    (* data buffer *)
  s_type : bytes;                    (* event type buffer; empty = "message" *)
  s_out : list (bytes * bytes);      (* dispatched (type, data), oldest first *)
  s_fields : list (bytes * bytes)    (* every field the parser processed, oldest first *)
}.
Definition sse_init : sse_state := mk_sse [] [] [] [].

Definition strip_last_lf (d : bytes) : bytes :=
  match frev d with 10 :: r => frev r | _ => d end.

Definition sse_step (st : sse_state) (l : bytes) : sse_state :=
  match classify_line l with
  | LBlank =>
      match s_data st with
      | [] => mk_sse [] [] (s_out st) (s_fields st)
      | d => mk_sse [] [] (s_out st ++ [(s_type st, strip_last_lf d)]) (s_fields st)
      end
  | LComment => st
  | LField name v =>
      let fl := s_fields st ++ [(name, v)] in
      if beq name f_event then mk_sse (s_data st) v (s_out st) fl
      else if beq name f_data then mk_sse (s_data st ++ v ++ [10]) (s_type st) (s_out st) fl
      else mk_sse (s_data st) (s_type st) (s_out st) fl
  end.

Definition sse_run (s : bytes) : sse_state := fold_left sse_step (sse_lines s) sse_init.
(* the events an EventSource dispatches for the stream [s] (an unterminated block is discarded) *)
Definition sse_parse (s : bytes) : list (bytes * bytes) := s_out (sse_run s).
(* every field line the parser acted on *)
Definition sse_fields (s : bytes) : list (bytes * bytes) := s_fields (sse_run s).
