(* Spec/ConnSpec.v -- the documented protocol-state contract of the connection object, written
   from the property statement (C05) independently of the transcription in Model/Conn.v:
   per state and operation, the prescribed misuse error and the prescribed wire effect. *)
From SV Require Import Base.Bytes Base.IO Model.Conn.

Section Spec.
Variable payload resp : Type.
Variable resp_code : resp -> N.
Variable write_out : resp -> bool -> option herr * bytes.
Variable resp_continue : resp.

Notation conn := (conn).

(* the abstract protocol state *)
Inductive rside := AwaitHead | BodyUnread | ReadClosed.
Inductive wside := NotOwed | Owed | WriteClosed.
Definition rside_of (c : conn) : rside :=
  match c_rs c with RS_Head => AwaitHead | RS_Body _ _ _ _ => BodyUnread | RS_Shutdown => ReadClosed end.
Definition wside_of (c : conn) : wside :=
  match c_ws c with WS_None => NotOwed | WS_Response => Owed | WS_Shutdown => WriteClosed end.

Definition body_coded (c : conn) : bool :=
  match c_rs c with RS_Body _ _ ch gz => ch || gz | _ => false end.
Definition body_expect (c : conn) : bool :=
  match c_rs c with RS_Body _ ex _ _ => ex | _ => false end.
Definition body_len (c : conn) : option N :=
  match c_rs c with RS_Body l _ _ _ => l | _ => None end.

(* sending is possible only while a response is owed *)
Definition send_guard (c : conn) : option herr :=
  match wside_of c with NotOwed => Some ResponseAlreadySent | WriteClosed => Some Disconnected | Owed => None end.

(* the error that the documented state prescribes for an operation that is misuse in that state;
   None = the operation is allowed to proceed *)
Definition guard_error (c : conn) (o : cop resp) : option herr :=
  match o with
  | OReadRequest =>
      match wside_of c, rside_of c with
      | Owed, _ => Some ResponseNotSent          (* a response is owed *)
      | WriteClosed, _ => Some Disconnected
      | NotOwed, BodyUnread => Some BodyNotRead  (* a body is unread *)
      | NotOwed, ReadClosed => Some Disconnected
      | NotOwed, AwaitHead => None
      end
  | OContinue | OWrite _ => send_guard c
  | OReadBodyVec =>
      match rside_of c with
      | AwaitHead => Some BodyNotAvailable
      | ReadClosed => Some Disconnected
      | BodyUnread =>
          if body_coded c then Some UnsupportedTransferEncoding
          else if body_expect c then send_guard c    (* 100-continue must be sendable first *)
          else None
      end
  | OReadBodyFile _ max_len =>
      match rside_of c with
      | AwaitHead => Some BodyNotAvailable
      | ReadClosed => Some Disconnected
      | BodyUnread =>
          if body_coded c then Some UnsupportedTransferEncoding
          else match body_len c with
               | Some n => if max_len <? n then Some BodyTooLong
                           else if body_expect c then send_guard c else None
               | None => if body_expect c then send_guard c else None
               end
      end
  | OShutdown => None
  end.

(* the bytes an allowed operation puts on the wire *)
Definition emit (r : resp) : bytes := snd (write_out r (is_5xx_close (resp_code r))).
Definition wire_delta (c : conn) (o : cop resp) : bytes :=
  match guard_error c o with
  | Some _ => []
  | None =>
      match o with
      | OWrite r => emit r
      | OContinue => emit resp_continue
      | OReadBodyVec | OReadBodyFile _ _ => if body_expect c then emit resp_continue else []
      | OReadRequest | OShutdown => []
      end
  end.
End Spec.

(* ---- the oracle of C05: the boolean form of the contract, evaluated by the correspondence check
   on the IMPLEMENTATION's observations (state before, operation, reported error, state after,
   bytes that appeared on the wire during the call) ---- *)
Definition rs_beq (a b : read_state) : bool :=
  match a, b with
  | RS_Head, RS_Head | RS_Shutdown, RS_Shutdown => true
  | RS_Body l e c g, RS_Body l' e' c' g' => option_beq N.eqb l l' && Bool.eqb e e' && Bool.eqb c c' && Bool.eqb g g'
  | _, _ => false
  end.
Definition ws_beq (a b : write_state) : bool :=
  match a, b with
  | WS_None, WS_None | WS_Response, WS_Response | WS_Shutdown, WS_Shutdown => true
  | _, _ => false
  end.
Definition herr_tag (e : herr) : N :=
  match e with
  | AlreadyGotBody => 0 | BodyNotAvailable => 1 | BodyNotRead => 2 | BodyNotUtf8 => 3 | BodyTooLong => 4
  | CacheDirNotConfigured => 5 | Disconnected => 6 | DuplicateContentLengthHeader => 7
  | DuplicateContentTypeHeader => 8 | DuplicateTransferEncodingHeader => 9 | ErrorReadingFile => 10
  | ErrorReadingResponseBody => 11 | ErrorSavingFile => 12 | HandlerDeadlineExceeded => 13 | HeadTooLong => 14
  | InvalidContentLength => 15 | MalformedCookieHeader => 16 | MalformedHeaderLine => 17 | MalformedPath => 18
  | MalformedRequestLine => 19 | MissingRequestLine => 20 | ResponseAlreadySent => 21 | ResponseNotSent => 22
  | TimerThreadNotStarted => 23 | Truncated => 24 | UnsupportedProtocol => 25
  | UnsupportedTransferEncoding => 26 | UnwritableResponse => 27 | ModelPanic => 28 | ModelOutOfFuel => 29
  end.
Definition herr_beq (a b : herr) : bool := herr_tag a =? herr_tag b.
Definition nil_b {A} (l : list A) : bool := match l with [] => true | _ => false end.

Section Oracle.
Variable resp : Type.
Variable resp_code : resp -> N.

(* [okind] = the body kind of the request a successful read_request returned (None otherwise) *)
Definition rs_matches_kind (rs' : read_state) (k : body_kind) : bool :=
  match k, rs' with
  | BK_None, RS_Head => true
  | BK_Known n, RS_Body (Some m) _ _ _ => n =? m
  | BK_Unknown, RS_Body None _ _ _ => true
  | _, _ => false
  end.

Definition oracle_c05_step (rs : read_state) (ws : write_state) (o : cop resp) (err : option herr)
           (okind : option body_kind) (rs' : read_state) (ws' : write_state) (delta : bytes) : bool :=
  let c := mk_conn rs ws (mk_cin [] (mk_in [] [] false)) [] false in
  match guard_error resp c o with
  | Some e =>
      (* misuse: the documented error, and nothing changes, nothing is sent *)
      option_beq herr_beq err (Some e) && rs_beq rs' rs && ws_beq ws' ws && nil_b delta
  | None =>
      (* bytes only while a response is owed; once shut down, shut down for ever *)
      (ws_beq ws WS_Response || nil_b delta) &&
      (negb (ws_beq ws WS_Shutdown) || ws_beq ws' WS_Shutdown) &&
      match o with
      | OWrite r =>
          rs_beq rs' rs &&
          match err with
          | None => ws_beq ws' (if is_5xx_close (resp_code r) then WS_Shutdown
                                else if is_1xx (resp_code r) then WS_Response else WS_None)
          | Some _ => (ws_beq ws' WS_Response && nil_b delta) || (ws_beq ws' WS_Shutdown && negb (nil_b delta))
          end
      | OContinue =>
          rs_beq rs' rs &&
          match err with
          | None => ws_beq ws' WS_Response
          | Some _ => (ws_beq ws' WS_Response && nil_b delta) || (ws_beq ws' WS_Shutdown && negb (nil_b delta))
          end
      | OReadBodyVec | OReadBodyFile _ _ =>
          match err with
          | Some _ => negb (rs_beq rs' RS_Head)             (* a failed body read never re-opens head reading *)
          | None => rs_beq rs' RS_Head || rs_beq rs' RS_Shutdown
          end
      | OReadRequest =>
          ws_beq ws' WS_Response &&
          (* the connection's read state agrees with the body kind of the request handed out: a
             pending body must be read (or the connection closed) before the next head *)
          match err, okind with
          | None, Some k => rs_matches_kind rs' k
          | None, None => false
          | Some _, _ => rs_beq rs' RS_Head
          end
      | OShutdown => ws_beq ws' WS_Shutdown && rs_beq rs' rs && nil_b delta
      end
  end.
End Oracle.
