(* Spec/Framing.v -- the specification side of property C03, written from the property statement
   and RFC 7230 sections 3.3.2 / 3.3.3 / 7, NOT from the code:

     "The body of a request is delimited solely by its framing headers: with a single valid
      Content-Length N the body is exactly the next N bytes and the following byte starts the
      next request; without one (and no transfer coding) bodiless methods have an empty body and
      POST/PUT bodies run to end of stream; chunked or gzip codings are reported as such and
      refused when the body is read.  A request whose framing is invalid or ambiguous --
      non-numeric or overflowing length, repeated Content-Length or Transfer-Encoding fields,
      unknown or mis-ordered codings -- is rejected, never processed as if the header were
      absent.  Content type, expect-continue flag and cookies handed to the handler are a pure
      function of the header fields."

   From Model/Request.v only the DATA TYPES and literal strings are used (ctype, ct_table,
   body_kind, request, body_result, msg_result, field names); from Model/Headers.v the type hlist;
   from Model/RustStr.v the cookie-text helpers and ntake/nskip.  The decision table itself
   (field multisets, 1*DIGIT, list elements, coding order) is defined here with its own helpers.
   Executable, definitions only. *)
From SV Require Import Base.Bytes Model.Headers Model.RustStr Model.Request.

(* all values of the fields called [name] (ASCII-case-insensitively), in the order sent *)
Definition field_values (name : bytes) (hs : hlist) : list bytes :=
  map snd (filter (fun h => eq_ic (fst h) name) hs).

(* ---------------------------------------------------------------- Content-Length *)
Inductive cl_class :=
| ClAbsent
| ClValid (n : N)          (* exactly one field, 1*DIGIT, value < 2^64 *)
| ClInvalid.               (* non-numeric, signed, padded inside, empty, overflowing, repeated (equal or not) *)

Definition digits_value (s : bytes) : N := fold_left (fun acc c => 10 * acc + (c - 48)) s 0.
Definition one_or_more_digits (s : bytes) : bool :=
  match s with [] => false | _ :: _ => forallb is_digit s end.

Definition classify_cl (vals : list bytes) : cl_class :=
  match vals with
  | [] => ClAbsent
  | [v] => if one_or_more_digits v && (digits_value v <? 18446744073709551616)
           then ClValid (digits_value v) else ClInvalid
  | _ :: _ :: _ => ClInvalid
  end.

(* ---------------------------------------------------------------- Transfer-Encoding *)
Inductive te_class :=
| TeAbsent | TeChunked | TeGzip | TeGzipChunked
| TeInvalid.               (* unknown coding, wrong order, coding repeated, field repeated *)

(* OWS = SP / HTAB *)
Fixpoint strip_left (s : bytes) : bytes :=
  match s with
  | [] => []
  | x :: t => if is_ows x then strip_left t else s
  end.
Definition strip (s : bytes) : bytes := rev (strip_left (rev (strip_left s))).

(* the elements of a comma-separated list (#rule): cut at every comma ([cur] is the current
   element, reversed), strip OWS, ignore empty elements *)
Fixpoint elements_acc (s cur : bytes) : list bytes :=
  match s with
  | [] => [rev cur]
  | c :: t => if c =? 44 then rev cur :: elements_acc t [] else elements_acc t (c :: cur)
  end.
Definition list_elements (v : bytes) : list bytes :=
  filter (fun e => negb (beq e [])) (map strip (elements_acc v [])).

Definition classify_te (vals : list bytes) : te_class :=
  match vals with
  | [] => TeAbsent
  | [v] =>
      let es := list_elements v in
      if list_beq beq es [] then TeAbsent            (* a field naming no coding says nothing about framing *)
      else if list_beq beq es [s_chunked] then TeChunked
      else if list_beq beq es [s_gzip] then TeGzip
      else if list_beq beq es [s_gzip; s_chunked] then TeGzipChunked
      else TeInvalid
  | _ :: _ :: _ => TeInvalid
  end.

(* ---------------------------------------------------------------- the decision table *)
Inductive framing :=
| Reject
| Accept (chunked gzip : bool) (clen : option N) (body : body_kind).

Definition method_has_default_body (method : bytes) : bool := beq method s_POST || beq method s_PUT.

Definition spec_expect (hs : hlist) : bool :=
  match field_values n_expect hs with
  | [v] => beq v s_100_continue
  | _ => false
  end.

(* [expect_body]: does an Expect field on a length-less, coding-less request of a bodiless method
   announce a body (of unknown length)?  The statement does not fix this cell (DESIGN section 7:
   implementation-free, either reading is safe), so it is a parameter: the oracle accepts both
   readings whenever an Expect field is present; the code reads "yes iff the expect flag is set". *)
Definition framing_spec_gen (expect_body : bool) (method : bytes) (hs : hlist) : framing :=
  match classify_te (field_values n_transfer_encoding hs),
        classify_cl (field_values n_content_length hs) with
  | TeInvalid, _ => Reject
  | _, ClInvalid => Reject
  | te, cl =>
      let chunked := match te with TeChunked | TeGzipChunked => true | _ => false end in
      let gzip := match te with TeGzip | TeGzipChunked => true | _ => false end in
      let clen := match cl with ClValid n => Some n | _ => None end in
      let body :=
        if chunked then PendingUnknown                       (* coded: length unknown, refused on read *)
        else match clen with
             | Some n => if n =? 0 then BodyEmpty else PendingKnown n
             | None =>
                 if gzip then PendingUnknown                 (* coded, refused on read *)
                 else if method_has_default_body method then PendingUnknown     (* to end of stream *)
                 else if expect_body then PendingUnknown
                 else BodyEmpty
             end in
      Accept chunked gzip clen body
  end.
Definition framing_spec (method : bytes) (hs : hlist) : framing :=
  framing_spec_gen (spec_expect hs) method hs.
Definition has_expect (hs : hlist) : bool :=
  match field_values n_expect hs with [] => false | _ :: _ => true end.

(* ---------------------------------------------------------------- derived fields *)
(* media type = the text before the first ';', compared exactly with the known types *)
Fixpoint before_semicolon (s : bytes) : bytes :=
  match s with
  | [] => []
  | c :: t => if c =? 59 then [] else c :: before_semicolon t
  end.
Definition media_type_of (v : bytes) : ctype :=
  match find (fun kc => beq (before_semicolon v) (fst kc)) ct_table with
  | Some kc => snd kc
  | None => CtString v
  end.
Definition spec_ctype (hs : hlist) : ctype :=
  match field_values n_content_type hs with
  | [v] => media_type_of v
  | _ => CtNone
  end.

(* cookies: every Cookie field, in order, is cut at ';', pieces are trimmed, empty pieces dropped;
   every piece must be name=value (cut at the first '='); a later pair overrides an earlier one
   of the same name.  None = some piece has no '='. *)
Definition cookie_pair (seg : bytes) : option (bytes * bytes) :=
  match splitn2 61 seg with
  | (name, Some value) => Some (name, value)
  | (_, None) => None
  end.
Fixpoint all_some {A} (l : list (option A)) : option (list A) :=
  match l with
  | [] => Some []
  | None :: _ => None
  | Some x :: t => match all_some t with Some r => Some (x :: r) | None => None end
  end.
Definition cookie_pairs (hs : hlist) : option (list (bytes * bytes)) :=
  all_some (map cookie_pair (flat_map (split_trim_nonempty 59) (field_values n_cookie hs))).
Definition spec_cookies (hs : hlist) : option cookie_map :=
  match cookie_pairs hs with
  | Some pairs => Some (fold_left (fun m p => cookie_insert (fst p) (snd p) m) pairs [])
  | None => None
  end.

(* the header list the handler sees: the list sent minus every content-type / expect /
   transfer-encoding field, order kept *)
Definition consumed_name (n : bytes) : bool :=
  eq_ic n n_content_type || eq_ic n n_expect || eq_ic n n_transfer_encoding.
Definition spec_exposed (hs : hlist) : hlist := filter (fun h => negb (consumed_name (fst h))) hs.
(* C14, request level: what the handler sees is the sent list minus the consumed fields, in order, pure ASCII
   (evaluated by the C14 correspondence check on the implementation's own header list) *)
Definition oracle_c14_req (sent exposed : hlist) : bool :=
  hlist_beq exposed (spec_exposed sent) && (negb (all_ascii sent) || all_ascii exposed).

(* ---------------------------------------------------------------- the whole request *)
(* what read_http_request must return for a parsed head: rejection when the framing is invalid or
   a Cookie field is malformed (the error names only say which rule was broken; when several are,
   transfer-encoding is reported before cookie before content-length), otherwise the request
   whose every field is the function of the header list defined above *)
Definition spec_request (method : bytes) (hs : hlist) : result request :=
  match classify_te (field_values n_transfer_encoding hs) with
  | TeInvalid => QErr UnsupportedTransferEncoding
  | _ =>
      match spec_cookies hs with
      | None => QErr MalformedCookieHeader
      | Some ck =>
          match framing_spec method hs with
          | Reject => QErr InvalidContentLength
          | Accept chunked gzip clen body =>
              QOk (mkRequest method (spec_exposed hs) ck (spec_ctype hs) (spec_expect hs)
                             chunked gzip clen body)
          end
      end
  end.

(* hypothesis on parsed heads (what C02 guarantees after D2): every field value consists of
   HTAB / SP / VCHAR bytes *)
Definition values_fv (hs : hlist) : bool := forallb (fun h => forallb is_fv_byte (snd h)) hs.

(* ---------------------------------------------------------------- boolean equalities *)
Definition ctype_beq (a b : ctype) : bool :=
  match a, b with
  | CtCss, CtCss | CtCsv, CtCsv | CtEventStream, CtEventStream | CtFormUrlEncoded, CtFormUrlEncoded
  | CtGif, CtGif | CtHtml, CtHtml | CtJavaScript, CtJavaScript | CtJpeg, CtJpeg | CtJson, CtJson
  | CtMarkdown, CtMarkdown | CtMultipartForm, CtMultipartForm | CtNone, CtNone
  | CtOctetStream, CtOctetStream | CtPdf, CtPdf | CtPlainText, CtPlainText | CtPng, CtPng
  | CtSvg, CtSvg => true
  | CtString x, CtString y => beq x y
  | _, _ => false
  end.
Definition body_kind_beq (a b : body_kind) : bool :=
  match a, b with
  | BodyEmpty, BodyEmpty => true
  | PendingKnown x, PendingKnown y => x =? y
  | PendingUnknown, PendingUnknown => true
  | _, _ => false
  end.
Definition pair_beq (a b : bytes * bytes) : bool := beq (fst a) (fst b) && beq (snd a) (snd b).
Definition body_result_beq (a b : body_result) : bool :=
  match a, b with
  | BrNone, BrNone | BrTruncated, BrTruncated | BrRefused, BrRefused | BrDeferred, BrDeferred => true
  | BrVec x, BrVec y => beq x y
  | _, _ => false
  end.

(* ---------------------------------------------------------------- one message: what must be observed *)
(* what reading the body must give and what must be left, for a framing and the bytes [rest] that
   follow the head; the last component says whether a further message may follow on the stream *)
Definition spec_body (small : N) (chunked gzip : bool) (body : body_kind) (rest : bytes)
  : body_result * bytes * bool :=
  match body with
  | BodyEmpty => (BrNone, rest, true)                     (* the next byte starts the next request *)
  | PendingKnown n =>
      if small <? n then (BrDeferred, rest, false)
      else if chunked || gzip then (BrRefused, rest, false)
      else if nlen rest <? n then (BrTruncated, [], false)
      else (BrVec (ntake n rest), nskip n rest, true)     (* exactly the next n bytes *)
  | PendingUnknown =>
      if chunked || gzip then (BrRefused, rest, false)
      else (BrVec rest, [], false)                        (* to end of stream *)
  end.

(* The oracle of C03 for one message.  Inputs: the head as parsed (method, fields), the bytes that
   follow the head on the stream, and the observation: result + bytes left for the next message.
   Strict: rejection exactly of invalid framing (a malformed Cookie field may also be rejected),
   flags, length, body kind, body bytes, left-over bytes, the header list exposed.
   NOT compared here: which content type / expect flag / cookie map is derived -- the statement only
   demands that they are a function of the header fields ([oracle_pure] below); which function it is
   is compared through the correspondence model = implementation. *)
Definition framing_matches (method : bytes) (hs : hlist) (chunked gzip : bool) (clen : option N)
           (body : body_kind) (r : request) : bool :=
  beq (rq_method r) method &&
  hlist_beq (rq_headers r) (spec_exposed hs) &&
  Bool.eqb (rq_chunked r) chunked &&
  Bool.eqb (rq_gzip r) gzip &&
  option_beq N.eqb (rq_clen r) clen &&
  body_kind_beq (rq_body r) body.

Definition oracle_accept (small : N) (method : bytes) (hs : hlist) (rest : bytes) (f : framing)
           (r : request) (br : body_result) (left : bytes) : bool :=
  match f with
  | Accept chunked gzip clen body =>
      framing_matches method hs chunked gzip clen body r &&
      (let '(br', left', _) := spec_body small chunked gzip body rest in
       body_result_beq br br' && beq left left')
  | Reject => false
  end.

Definition oracle_c03_msg (small : N) (h : head_in) (rest : bytes) (o : msg_result head_in * bytes) : bool :=
  let method := fst h in
  let hs := snd h in
  match fst o with
  | MHeadFail => false
  | MErr _ _ =>
      (* rejected: allowed exactly when the framing is invalid/ambiguous or a Cookie field is
         malformed; nothing after the head has been consumed *)
      (match framing_spec_gen false method hs, spec_cookies hs with
       | Reject, _ => true
       | _, None => true
       | _, _ => false
       end) && beq (snd o) rest
  | MReq _ r br =>
      oracle_accept small method hs rest (framing_spec_gen false method hs) r br (snd o) ||
      (has_expect hs &&
       oracle_accept small method hs rest (framing_spec_gen true method hs) r br (snd o))
  end.

(* purity of the derived fields: two accepted requests with the same header list carry the same
   content type, expect flag and cookies (whatever the method, body, position on the stream) *)
Definition derived_beq (r1 r2 : request) : bool :=
  ctype_beq (rq_ctype r1) (rq_ctype r2) && Bool.eqb (rq_expect r1) (rq_expect r2) &&
  list_beq pair_beq (rq_cookies r1) (rq_cookies r2).
Definition oracle_pure (hs1 hs2 : hlist) (r1 r2 : request) : bool :=
  negb (hlist_beq hs1 hs2) || derived_beq r1 r2.

(* may a further message be read after this observation?  (a body was absent, or was read in full) *)
Definition obs_continues (o : msg_result head_in * bytes) : bool :=
  match fst o with
  | MReq _ r BrNone => true
  | MReq _ r (BrVec _) => match rq_body r with PendingKnown _ => true | _ => false end
  | _ => false
  end.
