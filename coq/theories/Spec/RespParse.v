(* Spec/RespParse.v -- an independent, strict HTTP/1.1 response parser (RFC 7230 sections 3.1.2,
   3.2, 3.3.3, 4.1), written from the grammar and not from the serializer:

     status-line  = "HTTP/1.1" SP 3DIGIT SP *( HTAB / SP / VCHAR ) CRLF
     header-field = token ":" OWS *( HTAB / SP / VCHAR ) OWS CRLF      (value = OWS-trimmed)
     CRLF
     body         : exactly one framing field among ALL fields is required --
                    one Content-Length: 1*DIGIT  (that many bytes follow), or
                    one Transfer-Encoding: chunked (a chunked body follows, Spec/ChunkDecode.v);
                    both, several, or none => rejected.

   Result: status code, the fields in order, the body bytes, the bytes after the message.
   Definitions only. *)
From SV Require Import Base.Bytes Spec.ChunkDecode.

Definition s_content_type : bytes := [99;111;110;116;101;110;116;45;116;121;112;101].   (* "content-type" *)
Definition s_content_length : bytes := [99;111;110;116;101;110;116;45;108;101;110;103;116;104].   (* "content-length" *)
Definition s_transfer_encoding : bytes := [116;114;97;110;115;102;101;114;45;101;110;99;111;100;105;110;103].   (* "transfer-encoding" *)
Definition s_chunked : bytes := [99;104;117;110;107;101;100].   (* "chunked" *)
Definition s_http11 : bytes := [72;84;84;80;47;49;46;49].   (* "HTTP/1.1" *)

(* split at the first CRLF *)
Fixpoint split_line (l : bytes) : option (bytes * bytes) :=
  match l with
  | [] => None
  | a :: t =>
      match t with
      | [] => None
      | b :: t' =>
          if (a =? 13) && (b =? 10) then Some ([], t') else
          match split_line t with
          | Some (x, r) => Some (a :: x, r)
          | None => None
          end
      end
  end.

(* split at the first ':' *)
Fixpoint split_colon (s : bytes) : option (bytes * bytes) :=
  match s with
  | [] => None
  | a :: t => if a =? 58 then Some ([], t) else
              match split_colon t with
              | Some (x, r) => Some (a :: x, r)
              | None => None
              end
  end.

Fixpoint trim_ows_left (s : bytes) : bytes :=
  match s with
  | a :: t => if is_ows a then trim_ows_left t else s
  | [] => []
  end.
Definition trim_ows (s : bytes) : bytes := rev (trim_ows_left (rev (trim_ows_left s))).

Definition parse_status_line (s : bytes) : option N :=
  if starts_with s_http11 s then
    match skipn 8 s with
    | sp1 :: d1 :: d2 :: d3 :: sp2 :: reason =>
        if (sp1 =? 32) && is_digit d1 && is_digit d2 && is_digit d3 && (sp2 =? 32) && forallb is_fv_byte reason
        then undec [d1; d2; d3] else None
    | _ => None
    end
  else None.

Definition parse_field_line (s : bytes) : option (bytes * bytes) :=
  match split_colon s with
  | Some (name, v) => if is_token name && forallb is_fv_byte v then Some (name, trim_ows v) else None
  | None => None
  end.

Fixpoint parse_fields (fuel : nat) (l : bytes) : option (list (bytes * bytes) * bytes) :=
  match fuel with
  | O => None
  | S f =>
    match split_line l with
    | None => None
    | Some (line, rest) =>
        match line with
        | [] => Some ([], rest)
        | _ :: _ =>
            match parse_field_line line with
            | None => None
            | Some fld =>
                match parse_fields f rest with
                | Some (fs, r) => Some (fld :: fs, r)
                | None => None
                end
            end
        end
    end
  end.

Definition field_named (name : bytes) (f : bytes * bytes) : bool := eq_ic (fst f) name.

Inductive framing := FLength (n : N) | FChunked.
Definition framing_of (fs : list (bytes * bytes)) : option framing :=
  match filter (field_named s_content_length) fs, filter (field_named s_transfer_encoding) fs with
  | [cl], [] => match undec (snd cl) with Some n => Some (FLength n) | None => None end
  | [], [te] => if eq_ic (snd te) s_chunked then Some FChunked else None
  | _, _ => None
  end.

Definition parse_response (l : bytes) : option (N * list (bytes * bytes) * bytes * bytes) :=
  match split_line l with
  | None => None
  | Some (sl, r1) =>
    match parse_status_line sl with
    | None => None
    | Some code =>
      match parse_fields (S (length r1)) r1 with
      | None => None
      | Some (fs, r2) =>
        match framing_of fs with
        | None => None
        | Some (FLength n) =>
            match take_n n r2 with
            | Some (bd, rest) => Some (code, fs, bd, rest)
            | None => None
            end
        | Some FChunked =>
            match decode_chunks r2 with
            | DComplete chunks rest => Some (code, fs, concat chunks, rest)
            | _ => None
            end
        end
      end
    end
  end.
