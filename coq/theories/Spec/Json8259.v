(* Spec/Json8259.v -- an independent reference reader for RFC 8259 JSON texts that consist of ONE
   flat object (the shape of a servlin log line): members whose values are strings (all escapes
   of section 7, including \uXXXX and UTF-16 surrogate pairs), numbers (section 6; kept as exact
   decimals of arbitrary size), true / false / null.  Arrays and nested objects are rejected.

   Text is a list of Unicode scalar values ([list N]); where bytes matter, [utf8_encode] /
   [utf8_decode] below are RFC 3629.  Definitions only; lemmas are in Proofs/JsonP.v.
   Nothing here refers to the servlin model. *)
From SV Require Import Base.Bytes.
From Coq Require Import ZArith.

Definition text := list N.

(* ---------------------------------------------------------------- Unicode scalar values, UTF-8 *)
Definition is_scalar (c : N) : bool := (c <? 55296) || ((57344 <=? c) && (c <=? 1114111)).
Definition is_text (s : text) : bool := forallb is_scalar s.

Definition utf8_encode_char (c : N) : list N :=
  if c <? 128 then [c]
  else if c <? 2048 then [192 + c / 64; 128 + c mod 64]
  else if c <? 65536 then [224 + c / 4096; 128 + (c / 64) mod 64; 128 + c mod 64]
  else [240 + c / 262144; 128 + (c / 4096) mod 64; 128 + (c / 64) mod 64; 128 + c mod 64].
Definition utf8_encode (s : text) : list N := flat_map utf8_encode_char s.

Definition is_cont (b : N) : bool := (128 <=? b) && (b <? 192).

(* strict decoder: shortest form only, no surrogates, nothing above U+10FFFF *)
Fixpoint utf8_decode (bs : list N) : option text :=
  match bs with
  | [] => Some []
  | b0 :: r0 =>
      if b0 <? 128 then option_map (cons b0) (utf8_decode r0)
      else if b0 <? 192 then None
      else if b0 <? 224 then
        match r0 with
        | b1 :: r1 =>
            let c := (b0 - 192) * 64 + (b1 - 128) in
            if is_cont b1 && (128 <=? c) then option_map (cons c) (utf8_decode r1) else None
        | _ => None
        end
      else if b0 <? 240 then
        match r0 with
        | b1 :: b2 :: r2 =>
            let c := (b0 - 224) * 4096 + (b1 - 128) * 64 + (b2 - 128) in
            if is_cont b1 && is_cont b2 && (2048 <=? c) && is_scalar c
            then option_map (cons c) (utf8_decode r2) else None
        | _ => None
        end
      else if b0 <? 248 then
        match r0 with
        | b1 :: b2 :: b3 :: r3 =>
            let c := (b0 - 240) * 262144 + (b1 - 128) * 4096 + (b2 - 128) * 64 + (b3 - 128) in
            if is_cont b1 && is_cont b2 && is_cont b3 && (65536 <=? c) && (c <=? 1114111)
            then option_map (cons c) (utf8_decode r3) else None
        | _ => None
        end
      else None
  end.

(* ---------------------------------------------------------------- values *)
(* A number is sign, mantissa, decimal exponent:  (-1)^neg * mant * 10^exp10.  The reader keeps
   every digit, so "1.50" is (150, -2); [jnum_eqb] compares denotations. *)
Inductive jvalue :=
| JString (s : text)
| JNumber (neg : bool) (mant : N) (exp10 : Z)
| JTrue
| JFalse
| JNull.
Definition member := (text * jvalue)%type.

Definition is_nil {A} (l : list A) : bool := match l with [] => true | _ => false end.

Definition is_ws (c : N) : bool := (c =? 32) || (c =? 9) || (c =? 10) || (c =? 13).
Fixpoint skip_ws (s : text) : text :=
  match s with
  | c :: t => if is_ws c then skip_ws t else s
  | [] => []
  end.

(* ---------------------------------------------------------------- strings (RFC 8259 section 7) *)
Definition hexval (c : N) : option N :=
  if in_range 48 57 c then Some (c - 48)
  else if in_range 97 102 c then Some (c - 87)
  else if in_range 65 70 c then Some (c - 55)
  else None.
Definition hex4 (a b c d : N) : option N :=
  match hexval a, hexval b, hexval c, hexval d with
  | Some x, Some y, Some z, Some w => Some (((x * 16 + y) * 16 + z) * 16 + w)
  | _, _, _, _ => None
  end.

Definition cons_result (c : N) (r : option (text * text)) : option (text * text) :=
  match r with Some (s, rest) => Some (c :: s, rest) | None => None end.

(* single-character escapes: quotation mark, reverse solidus, solidus, b, f, n, r, t *)
Definition simple_escape (e : N) : option N :=
  if e =? 34 then Some 34 else if e =? 92 then Some 92 else if e =? 47 then Some 47
  else if e =? 98 then Some 8 else if e =? 102 then Some 12 else if e =? 110 then Some 10
  else if e =? 114 then Some 13 else if e =? 116 then Some 9 else None.

(* [parse_string_body s]: [s] starts just AFTER an opening quotation mark.  Returns the decoded
   string and the input that follows the closing quotation mark.
   unescaped = %x20-21 / %x23-5B / %x5D-10FFFF (scalar values only).  A \uXXXX escape in
   D800..DBFF must be followed by a \uXXXX escape in DC00..DFFF (one supplementary character);
   a lone low surrogate is rejected, so every accepted string is a scalar-value string. *)
Fixpoint parse_string_body (s : text) : option (text * text) :=
  match s with
  | [] => None
  | c :: t =>
      if c =? 34 then Some ([], t)
      else if c =? 92 then
        match t with
        | [] => None
        | e :: t1 =>
            if e =? 117 then
              match t1 with
              | h1 :: h2 :: h3 :: h4 :: t2 =>
                  match hex4 h1 h2 h3 h4 with
                  | None => None
                  | Some u =>
                      if in_range 55296 56319 u then
                        match t2 with
                        | b :: v :: g1 :: g2 :: g3 :: g4 :: t3 =>
                            if (b =? 92) && (v =? 117) then
                              match hex4 g1 g2 g3 g4 with
                              | None => None
                              | Some lo =>
                                  if in_range 56320 57343 lo
                                  then cons_result (65536 + (u - 55296) * 1024 + (lo - 56320))
                                                   (parse_string_body t3)
                                  else None
                              end
                            else None
                        | _ => None
                        end
                      else if in_range 56320 57343 u then None
                      else cons_result u (parse_string_body t2)
                  end
              | _ => None
              end
            else
              match simple_escape e with
              | Some d => cons_result d (parse_string_body t1)
              | None => None
              end
        end
      else if (32 <=? c) && is_scalar c then cons_result c (parse_string_body t)
      else None
  end.

(* ---------------------------------------------------------------- numbers (RFC 8259 section 6) *)
Fixpoint span_digits (s : text) : text * text :=
  match s with
  | c :: t => if is_digit c then let (d, r) := span_digits t in (c :: d, r) else ([], s)
  | [] => ([], [])
  end.
Definition digits_value (ds : text) : N := fold_left (fun a d => 10 * a + (d - 48)) ds 0.

(* int = zero / ( digit1-9 *DIGIT ) *)
Definition int_part_ok (ip : text) : bool :=
  match ip with
  | [] => false
  | d0 :: more => negb ((d0 =? 48) && negb (is_nil more))
  end.

Definition parse_number (s : text) : option (jvalue * text) :=
  let (neg, s1) := match s with
                   | c :: t => if c =? 45 then (true, t) else (false, s)
                   | [] => (false, s)
                   end in
  let (ip, s2) := span_digits s1 in
  if negb (int_part_ok ip) then None else
  (* frac = decimal-point 1*DIGIT *)
  let '(fp, s3, okf) :=
    match s2 with
    | c :: t => if c =? 46 then let (f, r) := span_digits t in (f, r, negb (is_nil f))
                else ([], s2, true)
    | [] => ([], s2, true)
    end in
  if negb okf then None else
  (* exp = e [ minus / plus ] 1*DIGIT *)
  let '(ex, s4, oke) :=
    match s3 with
    | c :: t =>
        if (c =? 101) || (c =? 69) then
          let (eneg, t1) := match t with
                            | c2 :: t' => if c2 =? 45 then (true, t')
                                          else if c2 =? 43 then (false, t') else (false, t)
                            | [] => (false, t)
                            end in
          let (ed, r) := span_digits t1 in
          ((if eneg then - Z.of_N (digits_value ed) else Z.of_N (digits_value ed))%Z, r,
           negb (is_nil ed))
        else (0%Z, s3, true)
    | [] => (0%Z, s3, true)
    end in
  if negb oke then None else
  Some (JNumber neg (digits_value (ip ++ fp)) (ex - Z.of_nat (length fp))%Z, s4).

(* ---------------------------------------------------------------- values, members, object *)
Definition parse_literal (lit : text) (v : jvalue) (s : text) : option (jvalue * text) :=
  if starts_with lit s then Some (v, skipn (length lit) s) else None.

Definition parse_value (s : text) : option (jvalue * text) :=
  match s with
  | [] => None
  | c :: t =>
      if c =? 34 then
        match parse_string_body t with
        | Some (str, r) => Some (JString str, r)
        | None => None
        end
      else if c =? 116 then parse_literal [116; 114; 117; 101] JTrue s
      else if c =? 102 then parse_literal [102; 97; 108; 115; 101] JFalse s
      else if c =? 110 then parse_literal [110; 117; 108; 108] JNull s
      else if (c =? 45) || is_digit c then parse_number s
      else None    (* arrays and nested objects are outside this reader *)
  end.

(* [s] is positioned at the first character of a member *)
Fixpoint parse_members (fuel : nat) (s : text) : option (list member * text) :=
  match fuel with
  | O => None
  | S f =>
      match s with
      | [] => None
      | c :: t =>
          if negb (c =? 34) then None else
          match parse_string_body t with
          | None => None
          | Some (name, r1) =>
              match skip_ws r1 with
              | [] => None
              | c2 :: t2 =>
                  if negb (c2 =? 58) then None else
                  match parse_value (skip_ws t2) with
                  | None => None
                  | Some (v, r2) =>
                      match skip_ws r2 with
                      | [] => None
                      | c3 :: t3 =>
                          if c3 =? 44 then
                            match parse_members f (skip_ws t3) with
                            | Some (ms, r) => Some ((name, v) :: ms, r)
                            | None => None
                            end
                          else if c3 =? 125 then Some ([(name, v)], t3)
                          else None
                      end
                  end
              end
          end
      end
  end.

Definition parse_object (s : text) : option (list member * text) :=
  match skip_ws s with
  | [] => None
  | c :: t =>
      if negb (c =? 123) then None else
      match skip_ws t with
      | [] => None
      | c2 :: t2 => if c2 =? 125 then Some ([], t2) else parse_members (length t) (skip_ws t)
      end
  end.

(* JSON-text = ws value ws, the value being one flat object *)
Definition parse_json_text (s : text) : option (list member) :=
  match parse_object s with
  | Some (ms, r) => if is_nil (skip_ws r) then Some ms else None
  | None => None
  end.

(* A JSONL line is a body without LF followed by exactly one LF. *)
Fixpoint split_line (s : text) : option text :=
  match s with
  | [] => None
  | c :: t =>
      if c =? 10 then (if is_nil t then Some [] else None)
      else option_map (cons c) (split_line t)
  end.
Definition parse_line (s : text) : option (list member) :=
  match split_line s with
  | Some body => parse_json_text body
  | None => None
  end.
Definition parse_line_utf8 (bs : list N) : option (list member) :=
  match utf8_decode bs with
  | Some s => parse_line s
  | None => None
  end.

(* ---------------------------------------------------------------- equality of values *)
Definition pow10 (k : N) : N := 10 ^ k.
(* same sign and same denotation mant * 10^exp10 (scaled to the smaller exponent) *)
Definition jnum_eqb (n1 : bool) (m1 : N) (e1 : Z) (n2 : bool) (m2 : N) (e2 : Z) : bool :=
  Bool.eqb n1 n2 &&
  (let lo := Z.min e1 e2 in
   (m1 * pow10 (Z.to_N (e1 - lo)) =? m2 * pow10 (Z.to_N (e2 - lo)))).
Definition jvalue_eqb (a b : jvalue) : bool :=
  match a, b with
  | JString x, JString y => beq x y
  | JNumber n1 m1 e1, JNumber n2 m2 e2 => jnum_eqb n1 m1 e1 n2 m2 e2
  | JTrue, JTrue => true
  | JFalse, JFalse => true
  | JNull, JNull => true
  | _, _ => false
  end.
Definition member_eqb (a b : member) : bool := beq (fst a) (fst b) && jvalue_eqb (snd a) (snd b).
