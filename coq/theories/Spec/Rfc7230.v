(* Spec/Rfc7230.v -- reference side of C02: the RFC 7230 section 3 grammar the library documents
   (token method, origin-form target, HTTP/1.1, name ":" OWS value OWS), a reference renderer,
   the declarative reading of the two line grammars, the classification of rejections, and the
   boolean oracle evaluated on observations.  Definitions only (executable where boolean).
   Character classes come from Base/Bytes.v (is_tchar, is_token, is_ows, is_fv_byte); the blank
   class SP/HTAB/CR/LF is [is_ws] of Model/Head.v. *)
From SV Require Import Base.Bytes Model.Headers Model.Head.

(* ------------------------------------------------------------------ field values *)
(* field-value after OWS stripping: HTAB / SP / VCHAR bytes, no OWS at either edge *)
Definition no_edge_ows (v : bytes) : bool :=
  match v with
  | [] => true
  | a :: _ => negb (is_ows a) && negb (is_ows (last v 0))
  end.
Definition is_field_value (v : bytes) : bool := forallb is_fv_byte v && no_edge_ows v.
Definition is_ows_run (l : bytes) : bool := forallb is_ows l.

(* ------------------------------------------------------------------ canonical origin-form targets *)
Definition is_hex (b : N) : bool := is_digit b || in_range 65 70 b || in_range 97 102 b.
Definition is_unreserved (b : N) : bool := is_alpha b || is_digit b || (b =? 45) || (b =? 46) || (b =? 95) || (b =? 126).
(* sub-delims  ! $ & ' ( ) * + , ; = *)
Definition is_sub_delim (b : N) : bool :=
  (b =? 33) || (b =? 36) || (b =? 38) || (b =? 39) || (b =? 40) || (b =? 41) || (b =? 42) || (b =? 43) ||
  (b =? 44) || (b =? 59) || (b =? 61).
(* pchar without '%' *)
Definition is_pchar_plain (b : N) : bool := is_unreserved b || is_sub_delim b || (b =? 58) || (b =? 64).
(* a run of [ok] bytes and well-formed %HH triplets *)
Fixpoint pct_scan (ok : N -> bool) (need : nat) (l : bytes) : bool :=
  match l with
  | [] => match need with O => true | _ => false end
  | b :: t =>
      match need with
      | O => if b =? 37 then pct_scan ok 2 t else ok b && pct_scan ok 0 t
      | S k => is_hex b && pct_scan ok k t
      end
  end.
Definition pct_run (ok : N -> bool) (l : bytes) : bool := pct_scan ok 0 l.

(* the bytes before / after the first '?' *)
Fixpoint path_of (t : bytes) : bytes :=
  match t with [] => [] | b :: r => if b =? 63 then [] else b :: path_of r end.
Fixpoint query_of (t : bytes) : option bytes :=
  match t with [] => None | b :: r => if b =? 63 then Some r else query_of r end.

(* segments of a path (split on '/') *)
Fixpoint segments (cur : bytes) (l : bytes) : list bytes :=
  match l with
  | [] => [rev cur]
  | b :: t => if b =? 47 then rev cur :: segments [] t else segments (b :: cur) t
  end.
(* "." and ".." in every spelling the url crate treats as a dot segment *)
Definition dot_byte_forms : list bytes := [[46]; [37; 50; 101]; [37; 50; 69]].
Definition is_dot_segment (s : bytes) : bool :=
  existsb (beq s) dot_byte_forms ||
  existsb (fun a => existsb (fun b => beq s (a ++ b)) dot_byte_forms) dot_byte_forms.

(* path chars: pchar / "/" ; query chars: pchar / "/" / "?" minus "'" (the url crate escapes ' in
   queries of special schemes) *)
Definition path_byte (b : N) : bool := is_pchar_plain b || (b =? 47).
Definition query_byte (b : N) : bool := (is_pchar_plain b || (b =? 47) || (b =? 63)) && negb (b =? 39).

Definition canonical_target (t : bytes) : bool :=
  starts_with [47] t && negb (starts_with [47; 47] t) &&
  pct_run path_byte (path_of t) &&
  negb (existsb is_dot_segment (segments [] (path_of t))) &&
  match query_of t with None => true | Some q => pct_run query_byte q end.

(* ------------------------------------------------------------------ reference renderer *)
Record field := mk_field { f_name : bytes; f_ows1 : bytes; f_value : bytes; f_ows2 : bytes }.
Definition field_ok (f : field) : bool :=
  is_token (f_name f) && is_ows_run (f_ows1 f) && is_field_value (f_value f) && is_ows_run (f_ows2 f).
Definition render_field (f : field) : bytes := f_name f ++ 58 :: f_ows1 f ++ f_value f ++ f_ows2 f.
Definition render_request_line (m t : bytes) : bytes := m ++ 32 :: t ++ 32 :: http11.
(* the head without its terminating CRLFCRLF *)
Definition render_head (m t : bytes) (fs : list field) : bytes :=
  render_request_line m t ++ concat (map (fun f => 13 :: 10 :: render_field f) fs).
Definition field_pair (f : field) : header := (f_name f, f_value f).
Definition strict_field (h : header) : field := mk_field (fst h) [] (snd h) [].

(* ------------------------------------------------------------------ declarative line grammars *)
(* the denotation of the request-line pattern: token SP nonblank+ SP nonblank+ *)
Definition reqline_spec (line m t v : bytes) : Prop :=
  line = m ++ 32 :: t ++ 32 :: v /\ is_token m = true /\ nonblank_run t = true /\ nonblank_run v = true.
(* the denotation of the field-line pattern: token ":" [ \t]* g [ \t]* *)
Definition fieldline_spec (line name g : bytes) : Prop :=
  exists a b, line = name ++ 58 :: a ++ g ++ b /\ is_token name = true /\ is_ows_run a = true /\ is_ows_run b = true.

(* lines of a head: LF-separated pieces with one trailing CR dropped *)
Fixpoint join_lf (ls : list bytes) : bytes :=
  match ls with
  | [] => []
  | [l] => l
  | l :: r => l ++ 10 :: join_lf r
  end.
Definition no_lf (l : bytes) : bool := forallb (fun b => negb (b =? 10)) l.
Definition strip_cr (l : bytes) : bytes :=
  match rev l with
  | x :: r => if x =? 13 then rev r else l
  | [] => l
  end.
Definition lines_spec (hb : bytes) (ls : list bytes) : Prop :=
  exists raw, raw <> [] /\ hb = join_lf raw /\ forallb no_lf raw = true /\ ls = map strip_cr raw.

(* a field line the library must accept: name ":" pad value pad with a token name, a value in the
   field-value grammar, and pads over the blank class (SP / HTAB, plus the CR leniency pinned by
   tests/head.rs; LF cannot occur inside a line by [lines_spec]) *)
Definition good_field_line (line : bytes) (h : header) : Prop :=
  exists a b, line = fst h ++ 58 :: a ++ snd h ++ b /\ is_token (fst h) = true /\
              is_field_value (snd h) = true /\ forallb is_ws a = true /\ forallb is_ws b = true.

(* ------------------------------------------------------------------ classification of rejections *)
Section Classify.
Variable url_parse : bytes -> option (bytes * option bytes).

Definition bad_target (t : bytes) : Prop := starts_with [47] t = false \/ url_parse t = None.

(* [justified data e]: the error corresponds to a rule that the bytes really violate.  Priority
   among several simultaneous violations is left open. *)
Definition justified (data : bytes) (e : head_error) : Prop :=
  match e with
  | HE_Truncated => find_slice crlf2 data = None
  | HE_MissingRequestLine => False
  | _ =>
      exists n ls, find_slice crlf2 data = Some n /\ lines_spec (firstn n data) ls /\
      match e with
      | HE_MalformedRequestLine => ~ exists m t v, reqline_spec (hd [] ls) m t v
      | HE_MalformedPath => exists m t v, reqline_spec (hd [] ls) m t v /\ bad_target t
      | HE_UnsupportedProtocol => exists m t v, reqline_spec (hd [] ls) m t v /\ v <> http11
      | HE_MalformedHeader => exists l, In l (tl ls) /\ ~ exists h, good_field_line l h
      | _ => False
      end
  end.

(* ------------------------------------------------------------------ boolean oracle *)
Definition head_lines (hb : bytes) : list bytes := map trim_trailing_cr (split_on 10 hb).

(* field line [l] is a good field line for header [h] *)
Definition field_line_matches (l : bytes) (h : header) : bool :=
  match cut_at 58 l with
  | None => false
  | Some (name, rest) => beq name (fst h) && is_token name && beq (trim_ws rest) (snd h) && is_field_value (snd h)
  end.
Definition field_line_good (l : bytes) : bool :=
  match cut_at 58 l with
  | None => false
  | Some (name, rest) => is_token name && forallb is_fv_byte (trim_ws rest)
  end.
Fixpoint all2 {A B} (p : A -> B -> bool) (a : list A) (b : list B) : bool :=
  match a, b with
  | [], [] => true
  | x :: a', y :: b' => p x y && all2 p a' b'
  | _, _ => false
  end.

(* accepted observation (method, path, query, headers, left-over) is consistent with the bytes *)
Definition accept_ok_b (data m p : bytes) (q : option bytes) (hs : hlist) (left : bytes) : bool :=
  match find_slice crlf2 data with
  | None => false
  | Some n =>
      beq left (skipn (n + 4) data) &&
      match head_lines (firstn n data) with
      | [] => false
      | l0 :: ls =>
          match match_request_line l0 with
          | None => false
          | Some (m', t, v) =>
              beq m m' && beq v http11 && starts_with [47] t &&
              match url_parse t with
              | None => false
              | Some (p', q') => beq p p' && option_beq beq q q'
              end &&
              all2 field_line_matches ls hs
          end
      end
  end.

Definition justified_b (data : bytes) (e : head_error) (left : bytes) : bool :=
  match find_slice crlf2 data with
  | None => match e with HE_Truncated => beq left data | _ => false end
  | Some n =>
      beq left (skipn (n + 4) data) &&
      match head_lines (firstn n data) with
      | [] => false
      | l0 :: ls =>
          match e with
          | HE_MalformedRequestLine => match match_request_line l0 with None => true | Some _ => false end
          | HE_MalformedPath =>
              match match_request_line l0 with
              | Some (_, t, _) => negb (starts_with [47] t) || match url_parse t with None => true | Some _ => false end
              | None => false
              end
          | HE_UnsupportedProtocol =>
              match match_request_line l0 with Some (_, _, v) => negb (beq v http11) | None => false end
          | HE_MalformedHeader => existsb (fun l => negb (field_line_good l)) ls
          | _ => false
          end
      end
  end.

(* the oracle of C02 on one Head::try_read observation *)
Definition oracle_c02 (data : bytes) (r : res head) (left : bytes) : bool :=
  match r with
  | Ok h => accept_ok_b data (h_method h) (h_path h) (h_query h) (h_headers h) left
  | Err e => justified_b data e left
  | Panic => false
  end.

(* the oracle of the must-accept theorem: for a structured case whose parts satisfy the grammar,
   the observation must be exactly the parts *)
Definition url_canonical_at (t : bytes) : bool :=
  negb (canonical_target t) ||
  match url_parse t with
  | Some (p, q) => beq p (path_of t) && option_beq beq q (query_of t)
  | None => false
  end.
Definition must_accept (m t : bytes) (fs : list field) : bool :=
  is_token m && canonical_target t && forallb field_ok fs.
Definition oracle_c02_roundtrip (m t : bytes) (fs : list field) (rest : bytes) (r : res head) (left : bytes) : bool :=
  negb (must_accept m t fs) ||
  match r with
  | Ok h => beq (h_method h) m && beq (h_path h) (path_of t) && option_beq beq (h_query h) (query_of t) &&
            hlist_beq (h_headers h) (map field_pair fs) && beq left rest
  | _ => false
  end.
End Classify.
