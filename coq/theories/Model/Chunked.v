(* Model/Chunked.v -- executable model of copy_chunked_async (src/util.rs:79-111) with its helpers
   hex_digit and trim_prefix.  Definitions only; proofs are in Proofs/ChunkedP.v. *)
From SV Require Import Base.Bytes Model.IOSched Spec.ChunkDecode.
From SV Require Generated.SourceParams.

(* fn hex_digit(n: u8) -> u8   (n in 0..=15; other values hit unimplemented!(), unreachable here
   because the argument is always masked with 0xF) *)
Definition hex_digit (d : N) : N := if d <? 10 then 48 + d else 87 + d.

(* buf[0..4]: (len >> 12) & 0xF, (len >> 8) & 0xF, (len >> 4) & 0xF, len & 0xF *)
Definition hex4 (len : N) : bytes :=
  [hex_digit (N.land (N.shiftr len 12) 15); hex_digit (N.land (N.shiftr len 8) 15);
   hex_digit (N.land (N.shiftr len 4) 15); hex_digit (N.land len 15)].

(* fn trim_prefix(slice, b'0') *)
Fixpoint trim_prefix0 (l : bytes) : bytes :=
  match l with
  | c :: t => if c =? 48 then trim_prefix0 t else l
  | [] => []
  end.

(* the bytes handed to write_all for one non-empty read of [p]:
   trim_prefix(&buf[..6+len+2], b'0')  with buf = hex4 len ++ CRLF ++ p ++ CRLF *)
Definition chunk_of (p : bytes) : bytes :=
  trim_prefix0 (hex4 (N.of_nat (length p)) ++ crlf ++ p ++ crlf).
Definition terminator : bytes := [48; 13; 10; 13; 10].     (* b"0\r\n\r\n" *)
(* the size line of a chunk of n bytes as it appears on the wire *)
Definition size_line (n : N) : bytes := trim_prefix0 (hex4 n).

(* the error-free output for a sequence of reads *)
Definition encode (pieces : list bytes) : bytes := concat (map chunk_of pieces) ++ terminator.

(* the largest read: reader.read(&mut buf[lo..hi]) -- the window is re-read from src/util.rs on every
   run (Generated/SourceParams.v, props/srcparams.py); at the pinned commit it is buf[6..65534] = 65528 *)
Definition piece_max_N : N := SourceParams.src_chunk_read_hi - SourceParams.src_chunk_read_lo.
Definition piece_max : nat := N.to_nat piece_max_N.

Inductive cres := COk (n : N) | CReaderErr | CWriterErr | COutOfFuel.

(* the loop of copy_chunked_async; returns (result, bytes accepted by the writer, reader and writer
   afterwards).  [cap] is the size of the read buffer (piece_max in the code). *)
Fixpoint copy_chunked_loop (cap : nat) (fuel : nat) (r : reader) (w : writer) (num : N)
  : cres * bytes * reader * writer :=
  match fuel with
  | O => (COutOfFuel, [], r, w)
  | S f =>
    match rd_read cap r with
    | RdErr r' => (CReaderErr, [], r', w)
    | RdBytes [] r' =>
        let '(a, w', ok) := write_all terminator w in
        (if ok then COk (num + 3) else CWriterErr, a, r', w')
    | RdBytes p r' =>
        let '(a, w', ok) := write_all (chunk_of p) w in
        if ok then
          let '(res, out, r'', w'') := copy_chunked_loop cap f r' w' (num + N.of_nat (length p)) in
          (res, a ++ out, r'', w'')
        else (CWriterErr, a, r', w')
    end
  end.
Definition copy_chunked (cap : nat) (r : reader) (w : writer) : cres * bytes * reader * writer :=
  copy_chunked_loop cap (rd_fuel r) r w 0.

(* ---- specification side ---- *)
(* what a reader hands out until its first Ok(0) / error, and whether it ended in an error;
   a function of the reader alone *)
Fixpoint delivered_fuel (cap : nat) (fuel : nat) (r : reader) : list bytes * bool :=
  match fuel with
  | O => ([], false)
  | S f =>
    match rd_read cap r with
    | RdErr _ => ([], true)
    | RdBytes [] _ => ([], false)
    | RdBytes p r' => let '(ps, e) := delivered_fuel cap f r' in (p :: ps, e)
    end
  end.
Definition delivered (cap : nat) (r : reader) : list bytes * bool := delivered_fuel cap (rd_fuel r) r.

Definition nonempty (l : bytes) : bool := match l with [] => false | _ => true end.

(* The oracle of C07: given the reader of the case and what the implementation returned and wrote,
   decide whether the property's conclusion holds:
   Ok(n)  -> the source did not fail, the output is one complete chunked message whose chunks are
             non-empty, whose decoded data is exactly what the source delivered, n = |data| + 3;
   Err    -> the output is an incomplete chunked message (never a complete one). *)
Definition oracle_c07 (cap : nat) (r : reader) (res : cres) (out : bytes) : bool :=
  let '(ps, errored) := delivered cap r in
  match res with
  | COk n =>
      negb errored &&
      match decode_chunked out with
      | DComplete cs _ => beq (concat cs) (concat ps) && forallb nonempty cs
                          && (n =? N.of_nat (length (concat ps)) + 3)
      | _ => false
      end
  | CReaderErr => errored && dres_beq (decode_chunked out) DIncomplete
  | CWriterErr => dres_beq (decode_chunked out) DIncomplete
  | COutOfFuel => false
  end.

(* size-line check used by the exhaustive sweep: all hex digits, value n, no leading '0' *)
Fixpoint hexval (acc : N) (l : bytes) : N :=
  match l with
  | c :: t => match unhexd c with Some d => hexval (16 * acc + d) t | None => acc end
  | [] => acc
  end.
Definition size_ok (n : N) : bool :=
  let s := size_line n in
  forallb is_hex s && (hexval 0 s =? n) && match s with [] => false | c :: _ => negb (c =? 48) end.
