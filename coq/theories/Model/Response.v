(* Model/Response.v -- executable model of write_http_response (src/response.rs:473-567), of
   ResponseBody::len / async_reader (src/response_body.rs), of copy_async (src/util.rs:28-46) and of
   the way reason_phrase / ContentType::as_str enter the head.  Definitions only; proofs are in
   Proofs/ResponseP.v.

   Implementation-defined text is a PARAMETER (DESIGN section 3): [reason : N -> bytes] is
   reason_phrase, [ct_text : nat -> bytes] is ContentType::as_str on the 16 fixed variants.  The
   theorems assume only that these are CR/LF-free printable text (reason_ok / ct_ok); the harness
   dumps the real tables exhaustively on every run and the driver evaluates these hypotheses on
   them and instantiates the model with them. *)
From SV Require Import Base.Bytes Model.Headers Model.IOSched Spec.ChunkDecode Model.Chunked Spec.RespParse.

Definition s_http11_sp : bytes := [72;84;84;80;47;49;46;49;32].   (* "HTTP/1.1 " *)
Definition s_connection : bytes := [99;111;110;110;101;99;116;105;111;110].   (* "connection" *)
Definition s_close : bytes := [99;108;111;115;101].   (* "close" *)
Definition s_colon_sp : bytes := [58;32].   (* ": " *)

(* ContentType: None | one of the fixed variants (index into the as_str table) | Str / String *)
Inductive ctype := CtNone | CtVariant (idx : nat) | CtText (s : bytes).

(* ResponseBody.  Known length: StaticBytes / StaticStr / Vec (declared = |data|, the open cannot
   fail) and File / TempFile (declared length is whatever the application said; the open may fail;
   the file holds [r_data src] and is read under the schedule of [src]).  Unknown length: the event
   stream, whose reads are the encoded events. *)
Inductive body :=
| BKnown (declared : N) (open_ok : bool) (src : reader)
| BStream (src : reader).
Definition body_len (b : body) : option N :=
  match b with BKnown n _ _ => Some n | BStream _ => None end.

Record response := mkResponse {
  r_normal : bool;            (* kind == ResponseKind::Normal *)
  r_code : N;
  r_ctype : ctype;
  r_headers : hlist;
  r_body : body }.

Inductive werr :=
| EUnwritable | EDupContentType | EDupContentLength | EDupTransferEncoding
| EDisconnected | EReadFile | EReadBody | EShortBody | EOutOfFuel.

Definition field_line (f : header) : bytes := fst f ++ s_colon_sp ++ snd f ++ crlf.

(* FixedBuf<65536> in copy_async *)
Definition copy_cap : nat := N.to_nat 65536.

(* copy_async(take(reader, limit), writer):
     loop { match reader.read(buf.writable()) { Ok(0) => return Ok(num), Ok(n) => .., Err => ReaderErr }
            writer.write_all(readable)?; num += n }
   with Take: limit == 0 => Ok(0) without touching the reader; else read into buf[..min(len, limit)] *)
Fixpoint copy_async_loop (cap fuel : nat) (limit : N) (r : reader) (w : writer) (num : N)
  : cres * bytes * reader * writer :=
  match fuel with
  | O => (COutOfFuel, [], r, w)
  | S f =>
    if limit =? 0 then (COk num, [], r, w) else
    let max := if limit <? N.of_nat cap then N.to_nat limit else cap in
    match rd_read max r with
    | RdErr r' => (CReaderErr, [], r', w)
    | RdBytes [] r' => (COk num, [], r', w)
    | RdBytes p r' =>
        let '(a, w', ok) := write_all p w in
        if ok then
          let '(res, out, r'', w'') :=
            copy_async_loop cap f (limit - N.of_nat (length p)) r' w' (num + N.of_nat (length p)) in
          (res, a ++ out, r'', w'')
        else (CWriterErr, a, r', w')
    end
  end.
Definition copy_async_take (limit : N) (r : reader) (w : writer) : cres * bytes * reader * writer :=
  copy_async_loop copy_cap (rd_fuel r) limit r w 0.

Section Resp.
  Variable reason : N -> bytes.        (* reason_phrase(code) *)
  Variable ct_text : nat -> bytes.     (* ContentType::as_str of the fixed variants *)

  Definition ctype_str (c : ctype) : bytes :=
    match c with CtNone => [] | CtVariant i => ct_text i | CtText s => s end.
  Definition ctype_set (c : ctype) : bool := match c with CtNone => false | _ => true end.

  (* format!("HTTP/1.1 {} {}\r\n", code, reason_phrase(code)) *)
  Definition status_line (code : N) : bytes := s_http11_sp ++ dec code ++ [32] ++ reason code ++ crlf.

  Definition is_empty {A} (l : list A) : bool := match l with [] => true | _ => false end.
  Definition is_some {A} (o : option A) : bool := match o with Some _ => true | None => false end.

  (* The guards and the head.  [prefix = true] is the code before the repair of D6
     (get_only(..).is_some(), the framing names checked only in "their" branch);
     [prefix = false] is the code as it is now (get_all(..).is_empty(), both names always). *)
  Definition build_head (prefix : bool) (r : response) (close : bool) : werr + bytes :=
    let hs := r_headers r in
    if negb (r_normal r) then inl EUnwritable else
    if ctype_set (r_ctype r) &&
       (if prefix then is_some (get_only hs s_content_type) else negb (is_empty (get_all hs s_content_type)))
    then inl EDupContentType else
    let h1 := status_line (r_code r) ++
              (if ctype_set (r_ctype r) then field_line (s_content_type, ctype_str (r_ctype r)) else []) ++
              (if close then field_line (s_connection, s_close) else []) in
    if negb prefix && negb (is_empty (get_all hs s_content_length)) then inl EDupContentLength else
    if negb prefix && negb (is_empty (get_all hs s_transfer_encoding)) then inl EDupTransferEncoding else
    match body_len (r_body r) with
    | Some n =>
        if prefix && is_some (get_only hs s_content_length) then inl EDupContentLength else
        inr (h1 ++ field_line (s_content_length, dec n) ++ concat (map field_line hs) ++ crlf)
    | None =>
        if prefix && is_some (get_only hs s_transfer_encoding) then inl EDupTransferEncoding else
        inr (h1 ++ field_line (s_transfer_encoding, s_chunked) ++ concat (map field_line hs) ++ crlf)
    end.

  Definition flush_res (w : writer) : option werr := if w_flush_ok w then None else Some EDisconnected.

  (* write_http_response: (None = Ok(()) | Some error, bytes accepted by the writer, writer afterwards) *)
  Definition write_http_response_gen (prefix : bool) (r : response) (close : bool) (w : writer)
    : option werr * bytes * writer :=
    match build_head prefix r close with
    | inl e => (Some e, [], w)
    | inr head =>
      let '(a, w1, ok) := write_all head w in
      if negb ok then (Some EDisconnected, a, w1) else
      match r_body r with
      | BKnown n open_ok src =>
          if n =? 0 then (flush_res w1, a, w1) else
          if negb open_ok then (Some EReadFile, a, w1) else
          let '(res, out, _, w2) := copy_async_take n src w1 in
          match res with
          | COk num => if num =? n then (flush_res w2, a ++ out, w2) else (Some EShortBody, a ++ out, w2)
          | CReaderErr => (Some EReadBody, a ++ out, w2)
          | CWriterErr => (Some EDisconnected, a ++ out, w2)
          | COutOfFuel => (Some EOutOfFuel, a ++ out, w2)
          end
      | BStream src =>
          let '(res, out, _, w2) := copy_chunked piece_max src w1 in
          match res with
          | COk _ => (flush_res w2, a ++ out, w2)
          | CReaderErr => (Some EReadBody, a ++ out, w2)
          | CWriterErr => (Some EDisconnected, a ++ out, w2)
          | COutOfFuel => (Some EOutOfFuel, a ++ out, w2)
          end
      end
    end.
  Definition write_http_response := write_http_response_gen false.
  Definition write_http_response_prefix := write_http_response_gen true.

  (* ---------------- specification side ---------------- *)
  (* the automatic fields, by the rules of the property: content-type iff a type is set,
     connection: close iff closing, then exactly one framing field *)
  Definition auto_fields (r : response) (close : bool) : hlist :=
    (if ctype_set (r_ctype r) then [(s_content_type, ctype_str (r_ctype r))] else []) ++
    (if close then [(s_connection, s_close)] else []) ++
    [match body_len (r_body r) with
     | Some n => (s_content_length, dec n)
     | None => (s_transfer_encoding, s_chunked)
     end].
  Definition all_fields (r : response) (close : bool) : hlist := auto_fields r close ++ r_headers r.

  (* a user field collides with an automatic one (the quantifier's three names) *)
  Definition collides (r : response) : bool :=
    (ctype_set (r_ctype r) && existsb (matches s_content_type) (r_headers r)) ||
    existsb (matches s_content_length) (r_headers r) || existsb (matches s_transfer_encoding) (r_headers r).

  (* the body bytes a correct write puts on the wire after the head *)
  Definition body_payload (b : body) : bytes :=
    match b with
    | BKnown n _ src => firstn (N.to_nat (N.min n (N.of_nat (length (r_data src))))) (r_data src)
    | BStream src => concat (fst (delivered piece_max src))
    end.
  Definition body_wire (b : body) : bytes :=
    match b with
    | BKnown n open_ok src => if (n =? 0) || negb open_ok then [] else body_payload b
    | BStream src => let '(ps, errored) := delivered piece_max src in
                     concat (map chunk_of ps) ++ (if errored then [] else terminator)
    end.
  (* the one correct serialisation (extended to what the body source can deliver) *)
  Definition head_of (r : response) (close : bool) : bytes :=
    status_line (r_code r) ++ concat (map field_line (all_fields r close)) ++ crlf.
  Definition full_wire (r : response) (close : bool) : bytes := head_of r close ++ body_wire (r_body r).

  (* well-formed domain of the property *)
  Definition first_not_ows (s : bytes) : bool := match s with [] => true | a :: _ => negb (is_ows a) end.
  Definition value_ok (v : bytes) : bool := forallb is_fv_byte v && first_not_ows v && first_not_ows (rev v).
  Definition header_ok (h : header) : bool := is_token (fst h) && value_ok (snd h).
  Definition code_ok (c : N) : bool := (100 <=? c) && (c <=? 999).
  Definition reason_text_ok (s : bytes) : bool := forallb is_fv_byte s.
  Definition ctype_ok (c : ctype) : bool := value_ok (ctype_str c).
  Definition body_sound (b : body) : bool :=
    match b with
    | BKnown n open_ok src => ((n =? 0) || open_ok) && reader_errfree src && (n <=? N.of_nat (length (r_data src)))
    | BStream src => reader_errfree src
    end.
  (* the head is in the property's domain: normal, code 100..999, reason phrase and content type
     are CR/LF-free printable text, field names are tokens, values printable without edge blanks *)
  Definition head_ok (r : response) : bool :=
    r_normal r && code_ok (r_code r) && reason_text_ok (reason (r_code r)) && ctype_ok (r_ctype r) &&
    forallb header_ok (r_headers r).
  Definition resp_wf (r : response) : bool := head_ok r && negb (collides r) && body_sound (r_body r).

  Definition werr_beq (a b : werr) : bool :=
    match a, b with
    | EUnwritable, EUnwritable | EDupContentType, EDupContentType | EDupContentLength, EDupContentLength
    | EDupTransferEncoding, EDupTransferEncoding | EDisconnected, EDisconnected | EReadFile, EReadFile
    | EReadBody, EReadBody | EShortBody, EShortBody | EOutOfFuel, EOutOfFuel => true
    | _, _ => false
    end.
  Definition is_dup (e : werr) : bool :=
    match e with EDupContentType | EDupContentLength | EDupTransferEncoding => true | _ => false end.

  Definition framing_count (fs : hlist) : nat :=
    length (filter (matches s_content_length) fs) + length (filter (matches s_transfer_encoding) fs).

  (* The oracle of C06, evaluated on what the implementation returned ([res]) and wrote ([wire])
     for a response written with a never-failing writer:
       - a response that would duplicate an automatic field must be refused with nothing written;
       - otherwise Ok(()) must come with bytes that the independent parser reads back as exactly
         the status code, [automatic fields by the rules] ++ [user fields in the order added], the
         body bytes, nothing left over, and exactly one framing field among all fields;
       - any other error: only when the body source is faulty (missing, short, failing), and what
         was written is a prefix of the one correct serialisation. *)
  Definition oracle_c06 (r : response) (close : bool) (res : option werr) (wire : bytes) : bool :=
    if negb (r_normal r) then option_beq werr_beq res (Some EUnwritable) && is_empty wire else
    if collides r then (match res with Some e => is_dup e | None => false end) && is_empty wire else
    match res with
    | None =>
        negb (head_ok r) ||
        match parse_response wire with
        | Some (code, fs, bd, rest) =>
            (code =? r_code r) && hlist_beq fs (all_fields r close) && beq bd (body_payload (r_body r)) &&
            is_empty rest && Nat.eqb (framing_count fs) 1 &&
            (match body_len (r_body r) with
             | Some n => N.of_nat (length bd) =? n      (* Content-Length = number of body bytes sent *)
             | None => true end)
        | None => false
        end
    | Some e => negb (is_dup e) && negb (body_sound (r_body r)) && starts_with wire (full_wire r close)
    end.
End Resp.

(* the event-stream bytes of Event::Message(data) for CR/LF-free data (C11 owns the encoder; C06
   only needs the pieces a stream delivers) *)
Definition s_data_sp : bytes := [100;97;116;97;58;32].   (* "data: " *)
Definition event_message_bytes (data : bytes) : bytes := s_data_sp ++ data ++ [10].
