(* Model/Conn.v -- executable model of src/http_conn.rs: the per-connection protocol state machine
   (HttpConn::{read_request, write_http_continue, read_body_to_vec, read_body_to_file,
   write_response, shutdown_write, is_ready}).  Definitions only.

   The machine is PARAMETRIC in the two pieces of code it calls:
     read_req  : how a request head is read and post-processed (src/request.rs + src/head.rs),
     write_out : what write_http_response does for a response on this socket: its result and the
                 bytes the socket accepted (src/response.rs; socket / body-source faults included).
   Every theorem of Proofs/ConnP.v holds for ALL such functions; the extraction instantiates them
   with the concrete models (Model/Head.v + Model/Request.v, Model/Response.v). *)
From SV Require Import Base.Bytes Base.IO.

(* enum HttpError, payloads dropped *)
Inductive herr :=
| AlreadyGotBody | BodyNotAvailable | BodyNotRead | BodyNotUtf8 | BodyTooLong | CacheDirNotConfigured
| Disconnected | DuplicateContentLengthHeader | DuplicateContentTypeHeader
| DuplicateTransferEncodingHeader | ErrorReadingFile | ErrorReadingResponseBody | ErrorSavingFile
| HandlerDeadlineExceeded | HeadTooLong | InvalidContentLength | MalformedCookieHeader
| MalformedHeaderLine | MalformedPath | MalformedRequestLine | MissingRequestLine
| ResponseAlreadySent | ResponseNotSent | TimerThreadNotStarted | Truncated | UnsupportedProtocol
| UnsupportedTransferEncoding | UnwritableResponse
(* not HttpError variants: outcomes of the underlying models that their theorems exclude *)
| ModelPanic | ModelOutOfFuel.

(* enum ReadState / WriteState *)
Inductive read_state :=
| RS_Head
| RS_Body (len : option N) (expect_continue chunked gzip : bool)
| RS_Shutdown.
Inductive write_state := WS_None | WS_Response | WS_Shutdown.

(* what read_request needs to know about the request it returns: RequestBody::PendingKnown(n) /
   PendingUnknown / anything else, and the three flags *)
Inductive body_kind := BK_None | BK_Known (len : N) | BK_Unknown.
Record reqmeta := mk_meta { rm_body : body_kind; rm_expect : bool; rm_chunked : bool; rm_gzip : bool }.

(* the connection's input side: bytes already in the 8 KiB buffer, bytes the peer will still
   deliver, and how the stream ends (in_err) -- Base/IO.v.  The buffer is kept as plain bytes here;
   its index arithmetic matters only inside the head reader. *)
Record cin := mk_cin { ci_buf : bytes; ci_in : instream }.

Section Machine.
Variable payload : Type.      (* the parsed request as handed to the caller *)
Variable resp : Type.         (* a response value *)
(* read_http_request(remote_addr, &mut buf, &mut stream) *)
Variable read_req : cin -> (herr + (payload * reqmeta)) * cin.
(* status code of a response (close = 500..=599; is_1xx) *)
Variable resp_code : resp -> N.
(* write_http_response(counter(stream), response, close): result and bytes accepted by the socket *)
Variable write_out : resp -> bool -> option herr * bytes.
(* Response::new(100) *)
Variable resp_continue : resp.
(* fix16 = the repair of D16 is present: a body read that fails after the state guards closes the
   read side (read_state = Shutdown) instead of leaving it at Head with the body unread. *)
Variable fix16 : bool.

Record conn := mk_conn {
  c_rs : read_state;
  c_ws : write_state;
  c_in : cin;
  c_wire : bytes;              (* every byte the socket accepted so far *)
  c_wshut : bool               (* stream.shutdown(Write) was called *)
}.

Definition conn_new (i : cin) : conn := mk_conn RS_Head WS_None i [] false.

Definition is_ready (c : conn) : bool :=
  match c_rs c, c_ws c with RS_Head, WS_None => true | _, _ => false end.

Definition shutdown_write (c : conn) : conn :=
  mk_conn (c_rs c) WS_Shutdown (c_in c) (c_wire c) true.

Definition is_1xx (code : N) : bool := (code / 100 =? 1).
Definition is_5xx_close (code : N) : bool := in_range 500 599 code.

(* HttpConn::write_response *)
Definition write_response (c : conn) (r : resp) : option herr * conn :=
  match c_ws c with
  | WS_None => (Some ResponseAlreadySent, c)
  | WS_Shutdown => (Some Disconnected, c)
  | WS_Response =>
      let close := is_5xx_close (resp_code r) in
      let '(res, accepted) := write_out r close in
      let c1 := mk_conn (c_rs c) (c_ws c) (c_in c) (c_wire c ++ accepted) (c_wshut c) in
      match res with
      | None =>
          let c2 := if is_1xx (resp_code r) then c1
                    else mk_conn (c_rs c1) WS_None (c_in c1) (c_wire c1) (c_wshut c1) in
          (None, if close then shutdown_write c2 else c2)
      | Some e =>
          (Some e, match accepted with [] => c1 | _ => shutdown_write c1 end)
      end
  end.

(* HttpConn::write_http_continue *)
Definition write_http_continue (c : conn) : option herr * conn :=
  match c_ws c with
  | WS_None => (Some ResponseAlreadySent, c)
  | WS_Shutdown => (Some Disconnected, c)
  | WS_Response => write_response c resp_continue
  end.

(* HttpConn::read_request *)
Definition read_request (c : conn) : (herr + payload) * conn :=
  match c_ws c with
  | WS_Response => (inl ResponseNotSent, c)
  | WS_Shutdown => (inl Disconnected, c)
  | WS_None =>
      match c_rs c with
      | RS_Body _ _ _ _ => (inl BodyNotRead, c)
      | RS_Shutdown => (inl Disconnected, c)
      | RS_Head =>
          let '(r, i') := read_req (c_in c) in
          match r with
          | inl e => (inl e, mk_conn RS_Head WS_Response i' (c_wire c) (c_wshut c))
          | inr (p, m) =>
              let rs' := match rm_body m with
                         | BK_Known n => RS_Body (Some n) (rm_expect m) (rm_chunked m) (rm_gzip m)
                         | BK_Unknown => RS_Body None (rm_expect m) (rm_chunked m) (rm_gzip m)
                         | BK_None => RS_Head
                         end in
              (inr p, mk_conn rs' WS_Response i' (c_wire c) (c_wshut c))
          end
      end
  end.

(* ---- body bytes: (&mut buf).chain(&mut stream), then take(len).read_to_end / read_to_end ---- *)
Definition cin_avail (i : cin) : bytes := ci_buf i ++ in_bytes (ci_in i).
(* consume k <= available bytes: first from the buffer, then from the stream *)
Definition cin_consume (k : nat) (i : cin) : cin :=
  let nb := length (ci_buf i) in
  if (k <=? nb)%nat then mk_cin (skipn k (ci_buf i)) (ci_in i)
  else mk_cin [] (mk_in (skipn (k - nb) (in_bytes (ci_in i))) (in_sched (ci_in i)) (in_err (ci_in i))).

(* exactly [n] bytes, or Truncated having consumed everything there was *)
Definition read_exact (n : N) (i : cin) : option bytes * cin :=
  let a := cin_avail i in
  if (n <=? N.of_nat (length a)) then (Some (firstn (N.to_nat n) a), cin_consume (N.to_nat n) i)
  else (None, cin_consume (length a) i).
(* everything up to end of stream; an io::Error at the end is Truncated *)
Definition read_to_end (i : cin) : option bytes * cin :=
  let a := cin_avail i in
  (if in_err (ci_in i) then None else Some a, cin_consume (length a) i).

(* what a body read returns: the bytes (kept in memory or written to a temp file) *)
Inductive body_res := BR_Err (e : herr) | BR_Vec (b : bytes) | BR_File (b : bytes).

Definition set_rs (c : conn) (rs : read_state) (i : cin) : conn :=
  mk_conn rs (c_ws c) i (c_wire c) (c_wshut c).

(* the `if expect_continue { self.write_http_continue().await?; }` prefix shared by the body readers *)
Definition maybe_continue (expect : bool) (c : conn) : option herr * conn :=
  if expect then write_http_continue c else (None, c).

(* read_state after a body read that was expected to leave [ok_state] *)
Definition rs_after (ok_state : read_state) (failed : bool) : read_state :=
  if failed && fix16 then RS_Shutdown else ok_state.

(* HttpConn::read_body_to_vec  (usize::try_from(len) cannot fail: 64-bit usize) *)
Definition read_body_to_vec (c : conn) : body_res * conn :=
  match c_rs c with
  | RS_Head => (BR_Err BodyNotAvailable, c)
  | RS_Shutdown => (BR_Err Disconnected, c)
  | RS_Body len expect chunked gzip =>
      if chunked || gzip then (BR_Err UnsupportedTransferEncoding, c)
      else
        match maybe_continue expect c with
        | (Some e, c1) => (BR_Err e, c1)
        | (None, c1) =>
            match len with
            | Some n =>
                let '(r, i') := read_exact n (c_in c1) in
                (match r with Some b => BR_Vec b | None => BR_Err Truncated end,
                 set_rs c1 (rs_after RS_Head (match r with Some _ => false | None => true end)) i')
            | None =>
                let '(r, i') := read_to_end (c_in c1) in
                (match r with Some b => BR_Vec b | None => BR_Err Truncated end, set_rs c1 RS_Shutdown i')
            end
        end
  end.

(* HttpConn::read_body_to_file(dir, max_len).  [dir_ok] = the temp file can be created and written
   (TempFile::in_dir + File::create); a failure there is ErrorSavingFile and happens BEFORE any
   body byte is consumed.  For an unknown length the reader is take(max_len.saturating_add(1)). *)
Definition u64_max : N := 18446744073709551615.
Definition sat_succ (m : N) : N := if m =? u64_max then m else m + 1.

(* read_http_unsized_body_to_file after the file was created: copy_async(take(reader, lim)), then
   `if max_len < len { BodyTooLong }`.  [lim] = max_len.saturating_add(1) in the code as it is now;
   before the repair of D7 it was max_len + 1, which wraps to 0 for u64::MAX in release builds. *)
Definition copy_unknown (lim max_len : N) (i : cin) : body_res * cin :=
  let a := cin_avail i in
  let k := N.min lim (N.of_nat (length a)) in
  let i' := cin_consume (N.to_nat k) i in
  if (N.of_nat (length a) <? lim) && in_err (ci_in i) then (BR_Err Truncated, i')
  else if max_len <? k then (BR_Err BodyTooLong, i')
  else (BR_File (firstn (N.to_nat k) a), i').

Definition read_body_to_file (c : conn) (dir_ok : bool) (max_len : N) : body_res * conn :=
  match c_rs c with
  | RS_Head => (BR_Err BodyNotAvailable, c)
  | RS_Shutdown => (BR_Err Disconnected, c)
  | RS_Body len expect chunked gzip =>
      if chunked || gzip then (BR_Err UnsupportedTransferEncoding, c)
      else
        match len with
        | Some n =>
            if max_len <? n then (BR_Err BodyTooLong, c)
            else
              match maybe_continue expect c with
              | (Some e, c1) => (BR_Err e, c1)
              | (None, c1) =>
                  if negb dir_ok then (BR_Err ErrorSavingFile, set_rs c1 (rs_after RS_Head true) (c_in c1))
                  else
                    let '(r, i') := read_exact n (c_in c1) in
                    (match r with Some b => BR_File b | None => BR_Err Truncated end,
                     set_rs c1 (rs_after RS_Head (match r with Some _ => false | None => true end)) i')
              end
        | None =>
            match maybe_continue expect c with
            | (Some e, c1) => (BR_Err e, c1)
            | (None, c1) =>
                if negb dir_ok then (BR_Err ErrorSavingFile, set_rs c1 RS_Shutdown (c_in c1))
                else
                  let '(r, i') := copy_unknown (sat_succ max_len) max_len (c_in c1) in
                  (r, set_rs c1 RS_Shutdown i')
            end
        end
  end.

(* ---- operation language (C05) ---- *)
Inductive cop :=
| OReadRequest
| OReadBodyVec
| OReadBodyFile (dir_ok : bool) (max_len : N)
| OContinue
| OWrite (r : resp)
| OShutdown.

Inductive conn_res :=
| CR_Ok                       (* Ok(()) *)
| CR_Req (p : payload)        (* Ok(request) *)
| CR_Body (b : body_res)      (* Ok(body) or the body reader's error *)
| CR_Err (e : herr).

Definition cstep (c : conn) (o : cop) : conn_res * conn :=
  match o with
  | OReadRequest => let '(r, c') := read_request c in
                    (match r with inl e => CR_Err e | inr p => CR_Req p end, c')
  | OReadBodyVec => let '(r, c') := read_body_to_vec c in (CR_Body r, c')
  | OReadBodyFile d m => let '(r, c') := read_body_to_file c d m in (CR_Body r, c')
  | OContinue => let '(r, c') := write_http_continue c in
                 (match r with Some e => CR_Err e | None => CR_Ok end, c')
  | OWrite r => let '(x, c') := write_response c r in
                (match x with Some e => CR_Err e | None => CR_Ok end, c')
  | OShutdown => (CR_Ok, shutdown_write c)
  end.

Fixpoint crun (c : conn) (ops : list cop) : list conn_res * conn :=
  match ops with
  | [] => ([], c)
  | o :: t => let '(r, c') := cstep c o in let '(rs, c'') := crun c' t in (r :: rs, c'')
  end.

End Machine.

Arguments OReadRequest {resp}.
Arguments OReadBodyVec {resp}.
Arguments OReadBodyFile {resp} dir_ok max_len.
Arguments OContinue {resp}.
Arguments OWrite {resp} r.
Arguments OShutdown {resp}.
Arguments CR_Ok {payload}.
Arguments CR_Req {payload} p.
Arguments CR_Body {payload} b.
Arguments CR_Err {payload} e.
