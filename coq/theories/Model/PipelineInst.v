(* Model/PipelineInst.v -- the message-after-message loop of Model/Request.v instantiated with the
   CONCRETE head reader of Model/Head.v.  Definitions only; proofs in Proofs/PipelineInstP.v.

   Two instances:
   (1) [read_head_conc]: the abstract reader [read_head : bytes -> option (head * bytes)] of
       Model/Request.v's Section Stream := the schedule-free [Head.head_spec] on an empty, shifted
       buffer (what C01 proves the fuelled loop computes);
   (2) [conc_pipeline]: no abstraction at all on the head side -- every head is read by the fuelled
       loop [Head.read_request_head] (buf.shift(); read_http_head) on the FixedBuf model [fbuf] and
       the [instream] with its own read schedule; the body is then read by [read_body_to_vec] from
       the bytes left in the buffer, then the stream (body reads take their schedules from [scheds];
       the theorems quantify over both kinds of schedule, so how they are threaded is immaterial). *)
From SV Require Import Base.Bytes Base.IO Model.Headers Model.RustStr Model.Request Spec.Framing.
From SV Require Model.Head Spec.Rfc7230.

Section Inst.
  Variable url_parse : bytes -> option (bytes * option bytes).
  Variable cap : nat.            (* size of the FixedBuf *)
  Variable small : N.            (* small_body_len *)

  Definition read_head_conc (data : bytes) : option (Head.head * bytes) :=
    match Head.head_spec url_parse cap (Head.mk_fbuf 0 []) data with
    | Head.VOk h rest => Some (h, rest)
    | _ => None
    end.

  (* what read_http_request + read_body_to_vec do once the head [h] is parsed, with [b] the bytes
     left in the buffer and [s] the bytes still in the socket (= the tail of msg_step) *)
  Definition body_step (h : Head.head) (b s : bytes) (sched : list nat)
    : msg_result Head.head * (bytes * bytes) * bool :=
    match request_of_head (Head.h_method h) (Head.h_headers h) with
    | QErr e => (MErr h e, (b, s), false)
    | QOk r =>
        match rq_body r with
        | BodyEmpty => (MReq h r BrNone, (b, s), true)
        | PendingKnown n =>
            if small <? n then (MReq h r BrDeferred, (b, s), false)
            else
              let '(br, bs) := read_body_to_vec (rq_chunked r) (rq_gzip r) (Some n) b s sched in
              (MReq h r br, bs, match br with BrVec _ => true | _ => false end)
        | PendingUnknown =>
            let '(br, bs) := read_body_to_vec (rq_chunked r) (rq_gzip r) None b s sched in
            (MReq h r br, bs, false)
        end
    end.

  (* FixedBuf after the body reader took the first bytes of its readable part: read_index advances
     (try_read_exact), and both indices are reset when the buffer becomes empty *)
  Definition fbuf_after_body (b' : Head.fbuf) (left : bytes) : Head.fbuf :=
    match left with
    | [] => Head.mk_fbuf 0 []
    | _ :: _ => Head.mk_fbuf (Head.fb_rd b' + (length (Head.fb_data b') - length left)) left
    end.

  Fixpoint conc_pipeline (n fuel : nat) (b : Head.fbuf) (s : instream) (scheds : list (list nat))
    : list (msg_result Head.head) * (bytes * bytes) :=
    match n with
    | O => ([], (Head.fb_data b, in_bytes s))
    | S n' =>
        match Head.read_request_head url_parse cap fuel b s with
        | Head.ROk h b' s' =>
            let '(m, bs, cont) := body_step h (Head.fb_data b') (in_bytes s') (hd [] scheds) in
            if cont then
              let '(ms, fin) :=
                conc_pipeline n' fuel (fbuf_after_body b' (fst bs))
                              (mk_in (snd bs) (in_sched s') (in_err s')) (tl scheds) in
              (m :: ms, fin)
            else ([m], bs)
        | _ => ([MHeadFail], (Head.fb_data b, in_bytes s))      (* the connection ends *)
        end
    end.

  (* ---- messages as sent: token method, request-target, fields with their optional white space,
     body; rendered with Spec/Rfc7230.v's reference renderer ---- *)
  Definition cmsg := (bytes * bytes * list Rfc7230.field * bytes)%type.
  Definition c_method (c : cmsg) : bytes := fst (fst (fst c)).
  Definition c_target (c : cmsg) : bytes := snd (fst (fst c)).
  Definition c_fields (c : cmsg) : list Rfc7230.field := snd (fst c).
  Definition c_body (c : cmsg) : bytes := snd c.
  Definition c_head_bytes (c : cmsg) : bytes := Rfc7230.render_head (c_method c) (c_target c) (c_fields c).
  Definition crender (c : cmsg) : bytes := c_head_bytes c ++ Head.crlf2 ++ c_body c.
  (* the head the parser must produce *)
  Definition chead (c : cmsg) : Head.head :=
    Head.mk_head (c_method c) (c_target c) (Rfc7230.path_of (c_target c)) (Rfc7230.query_of (c_target c))
                 (map Rfc7230.field_pair (c_fields c)).
  (* a well-formed Content-Length-framed message whose head fits the buffer *)
  Definition cframed (c : cmsg) : Prop :=
    is_token (c_method c) = true /\ Rfc7230.canonical_target (c_target c) = true /\
    forallb Rfc7230.field_ok (c_fields c) = true /\
    (length (c_head_bytes c) + 4 <= cap)%nat /\
    spec_cookies (map Rfc7230.field_pair (c_fields c)) <> None /\
    classify_te (field_values n_transfer_encoding (map Rfc7230.field_pair (c_fields c))) = TeAbsent /\
    classify_cl (field_values n_content_length (map Rfc7230.field_pair (c_fields c))) = ClValid (nlen (c_body c)) /\
    nlen (c_body c) <= small.
  (* what reading it must yield: the head, the derived request, the body *)
  Definition cexpected (c : cmsg) : msg_result Head.head :=
    let hs := map Rfc7230.field_pair (c_fields c) in
    MReq (chead c)
         (mkRequest (c_method c) (spec_exposed hs)
                    (match spec_cookies hs with Some ck => ck | None => [] end)
                    (spec_ctype hs) (spec_expect hs) false false (Some (nlen (c_body c)))
                    (if nlen (c_body c) =? 0 then BodyEmpty else PendingKnown (nlen (c_body c))))
         (match c_body c with [] => BrNone | _ :: _ => BrVec (c_body c) end).
End Inst.
