(* Model/Request.v -- executable model of what src/request.rs (read_http_request) does AFTER the
   head has been parsed, of ContentType::parse (src/content_type.rs), of the body readers
   read_http_body_to_vec / read_http_unsized_body_to_vec (src/request_body.rs) and of the
   body-reading arms of HttpConn::read_body_to_vec (src/http_conn.rs).
   Definitions only; the proofs are in Proofs/RequestP.v.

   The head parser itself is NOT here (Model/Head.v, properties C01/C02): everything below the head
   is the pure function [request_of_head : method -> hlist -> result], and the stream-level
   functions are written in a Section over an abstract head reader [read_head]. *)
From SV Require Import Base.Bytes Model.Headers Model.RustStr.

(* ---- literal strings of the anchored code ---- *)
Definition n_content_type : bytes := [99;111;110;116;101;110;116;45;116;121;112;101].  (* "content-type" *)
Definition n_expect : bytes := [101;120;112;101;99;116].  (* "expect" *)
Definition n_transfer_encoding : bytes := [116;114;97;110;115;102;101;114;45;101;110;99;111;100;105;110;103].  (* "transfer-encoding" *)
Definition n_cookie : bytes := [99;111;111;107;105;101].  (* "cookie" *)
Definition n_content_length : bytes := [99;111;110;116;101;110;116;45;108;101;110;103;116;104].  (* "content-length" *)
Definition s_100_continue : bytes := [49;48;48;45;99;111;110;116;105;110;117;101].  (* "100-continue" *)
Definition s_gzip : bytes := [103;122;105;112].  (* "gzip" *)
Definition s_chunked : bytes := [99;104;117;110;107;101;100].  (* "chunked" *)
Definition s_POST : bytes := [80;79;83;84].  (* "POST" *)
Definition s_PUT : bytes := [80;85;84].  (* "PUT" *)
Definition mt_css : bytes := [116;101;120;116;47;99;115;115].  (* "text/css" *)
Definition mt_csv : bytes := [116;101;120;116;47;99;115;118].  (* "text/csv" *)
Definition mt_event_stream : bytes := [116;101;120;116;47;101;118;101;110;116;45;115;116;114;101;97;109].  (* "text/event-stream" *)
Definition mt_form : bytes := [97;112;112;108;105;99;97;116;105;111;110;47;120;45;119;119;119;45;102;111;114;109;45;117;114;108;101;110;99;111;100;101;100].  (* "application/x-www-form-urlencoded" *)
Definition mt_gif : bytes := [105;109;97;103;101;47;103;105;102].  (* "image/gif" *)
Definition mt_html : bytes := [116;101;120;116;47;104;116;109;108].  (* "text/html" *)
Definition mt_javascript : bytes := [116;101;120;116;47;106;97;118;97;115;99;114;105;112;116].  (* "text/javascript" *)
Definition mt_jpeg : bytes := [105;109;97;103;101;47;106;112;101;103].  (* "image/jpeg" *)
Definition mt_json : bytes := [97;112;112;108;105;99;97;116;105;111;110;47;106;115;111;110].  (* "application/json" *)
Definition mt_markdown : bytes := [116;101;120;116;47;109;97;114;107;100;111;119;110].  (* "text/markdown" *)
Definition mt_multipart : bytes := [109;117;108;116;105;112;97;114;116;47;102;111;114;109;45;100;97;116;97].  (* "multipart/form-data" *)
Definition mt_octet : bytes := [97;112;112;108;105;99;97;116;105;111;110;47;111;99;116;101;116;45;115;116;114;101;97;109].  (* "application/octet-stream" *)
Definition mt_pdf : bytes := [97;112;112;108;105;99;97;116;105;111;110;47;112;100;102].  (* "application/pdf" *)
Definition mt_plain : bytes := [116;101;120;116;47;112;108;97;105;110].  (* "text/plain" *)
Definition mt_png : bytes := [105;109;97;103;101;47;112;110;103].  (* "image/png" *)
Definition mt_svg : bytes := [105;109;97;103;101;47;115;118;103;43;120;109;108].  (* "image/svg+xml" *)

(* ---- data types shared by the model and the specification ---- *)
Inductive ctype :=
| CtCss | CtCsv | CtEventStream | CtFormUrlEncoded | CtGif | CtHtml | CtJavaScript | CtJpeg | CtJson
| CtMarkdown | CtMultipartForm | CtNone | CtOctetStream | CtPdf | CtPlainText | CtPng | CtSvg
| CtString (s : bytes).

(* the arms of the match in ContentType::parse, in source order *)
Definition ct_table : list (bytes * ctype) :=
  [ (mt_css, CtCss); (mt_csv, CtCsv); (mt_event_stream, CtEventStream); (mt_form, CtFormUrlEncoded);
    (mt_gif, CtGif); (mt_html, CtHtml); (mt_javascript, CtJavaScript); (mt_jpeg, CtJpeg);
    (mt_json, CtJson); (mt_markdown, CtMarkdown); (mt_multipart, CtMultipartForm); ([], CtNone);
    (mt_octet, CtOctetStream); (mt_pdf, CtPdf); (mt_plain, CtPlainText); (mt_png, CtPng); (mt_svg, CtSvg) ].

Inductive req_error := InvalidContentLength | UnsupportedTransferEncoding | MalformedCookieHeader.

(* RequestBody as produced by read_http_request: empty() / PendingKnown(len) / PendingUnknown *)
Inductive body_kind := BodyEmpty | PendingKnown (n : N) | PendingUnknown.

Definition cookie_map := list (bytes * bytes).   (* HashMap<String,String>, canonical form: sorted by key *)

Record request := mkRequest {
  rq_method : bytes;
  rq_headers : hlist;
  rq_cookies : cookie_map;
  rq_ctype : ctype;
  rq_expect : bool;
  rq_chunked : bool;
  rq_gzip : bool;
  rq_clen : option N;
  rq_body : body_kind }.

Inductive result (A : Type) := QOk (a : A) | QErr (e : req_error).
Arguments QOk {A} a.
Arguments QErr {A} e.

(* ---- ContentType::parse ---- *)
Fixpoint ct_lookup (key : bytes) (tbl : list (bytes * ctype)) : option ctype :=
  match tbl with
  | [] => None
  | (k, c) :: t => if beq key k then Some c else ct_lookup key t
  end.

Definition ct_parse (s : bytes) : ctype :=
  let key := match split 59 s with p :: _ => p | [] => [] end in      (* s.split(';').next() *)
  match ct_lookup key ct_table with
  | Some c => c
  | None => CtString s
  end.

(* read_http_body_to_file for a body of known length: exactly the next [len] bytes of what is still
   unread (connection buffer, then socket), or Truncated when the peer ends the stream earlier *)
Definition body_to_file_known (len : N) (avail : bytes) : option bytes :=
  if N.of_nat (length avail) <? len then None else Some (firstn (N.to_nat len) avail).

(* ---- transfer-encoding ---- *)
Definition opt_is (o : option bytes) (lit : bytes) : bool :=
  match o with Some s => beq s lit | None => false end.
Definition opt_none {A} (o : option A) : bool := match o with None => true | Some _ => false end.

(* the match on (iter.next(), iter.next(), iter.next()); result = (gzip, chunked) *)
Definition te_flags (value : option bytes) : option (bool * bool) :=
  let items := split_trim_nonempty 44 (match value with Some s => s | None => [] end) in
  let i1 := nth_error items 0 in
  let i2 := nth_error items 1 in
  let i3 := nth_error items 2 in
  if opt_is i1 s_gzip && opt_is i2 s_chunked && opt_none i3 then Some (true, true)
  else if opt_is i1 s_gzip && opt_none i2 && opt_none i3 then Some (true, false)
  else if opt_is i1 s_chunked && opt_none i2 && opt_none i3 then Some (false, true)
  else if opt_none i1 && opt_none i2 && opt_none i3 then Some (false, false)
  else None.

(* [d3] = the repair of D3 is present (remove_all + "more than one value is an error");
   without it the code used remove_only, which answers None for a repeated field. *)
Definition te_step (d3 : bool) (hs : hlist) : option (hlist * (bool * bool)) :=
  if d3 then
    let '(hs', values) := remove_all hs n_transfer_encoding in
    if (1 <? length values)%nat then None
    else match te_flags (vec_pop values) with Some f => Some (hs', f) | None => None end
  else
    let '(hs', v) := remove_only hs n_transfer_encoding in
    match te_flags v with Some f => Some (hs', f) | None => None end.

(* ---- cookies ---- *)
Fixpoint cookie_insert (k v : bytes) (m : cookie_map) : cookie_map :=
  match m with
  | [] => [(k, v)]
  | (k', v') :: t =>
      match bcompare k k' with
      | Lt => (k, v) :: m
      | Eq => (k, v) :: t
      | Gt => (k', v') :: cookie_insert k v t
      end
  end.

(* inner loop: the segments of one Cookie field *)
Fixpoint cookies_of_segments (segs : list bytes) (m : cookie_map) : option cookie_map :=
  match segs with
  | [] => Some m
  | seg :: t =>
      match splitn2 61 seg with
      | (name, Some value) => cookies_of_segments t (cookie_insert name value m)
      | (_, None) => None
      end
  end.
(* outer loop: the Cookie fields in order *)
Fixpoint cookies_of_values (vals : list bytes) (m : cookie_map) : option cookie_map :=
  match vals with
  | [] => Some m
  | v :: t =>
      match cookies_of_segments (split_trim_nonempty 59 v) m with
      | Some m' => cookies_of_values t m'
      | None => None
      end
  end.

(* ---- content-length ---- *)
(* [d4] = the repair of D4 is present (all-digits guard before u64::from_str). *)
Definition cl_parse (d4 : bool) (s : bytes) : option N :=
  if d4 then (if forallb is_digit s then u64_from_str s else None) else u64_from_str s.

(* Some None = no length; Some (Some n) = length n; None = InvalidContentLength *)
Definition cl_step (d3 d4 : bool) (hs : hlist) : option (option N) :=
  if d3 then
    match get_all hs n_content_length with
    | [] => Some None
    | [s] => match cl_parse d4 s with Some n => Some (Some n) | None => None end
    | _ => None
    end
  else
    match get_only hs n_content_length with
    | Some s => match cl_parse d4 s with Some n => Some (Some n) | None => None end
    | None => Some None
    end.

(* ---- the (chunked, content_length, method) table ---- *)
Definition body_table (chunked : bool) (clen : option N) (method : bytes) (expect gzip : bool) : body_kind :=
  if chunked then PendingUnknown
  else match clen with
       | Some n => if n =? 0 then BodyEmpty else PendingKnown n
       | None =>
           if beq method s_POST || beq method s_PUT then PendingUnknown
           else if expect || gzip then PendingUnknown
           else BodyEmpty
       end.

(* ---- read_http_request after read_http_head ---- *)
Definition request_of_head_gen (d3 d4 : bool) (method : bytes) (hs0 : hlist) : result request :=
  let '(hs1, ct) := remove_only hs0 n_content_type in
  let content_type := match ct with Some s => ct_parse s | None => CtNone end in
  let '(hs2, ex) := remove_only hs1 n_expect in
  let expect := match ex with Some s => beq s s_100_continue | None => false end in
  match te_step d3 hs2 with
  | None => QErr UnsupportedTransferEncoding
  | Some (hs3, (gzip, chunked)) =>
      match cookies_of_values (get_all hs3 n_cookie) [] with
      | None => QErr MalformedCookieHeader
      | Some cookies =>
          match cl_step d3 d4 hs3 with
          | None => QErr InvalidContentLength
          | Some clen =>
              QOk (mkRequest method hs3 cookies content_type expect chunked gzip clen
                            (body_table chunked clen method expect gzip))
          end
      end
  end.

(* the code in /repo now *)
Definition request_of_head : bytes -> hlist -> result request := request_of_head_gen true true.
(* the code before the repairs of D3 and D4 *)
Definition request_of_head_prefix : bytes -> hlist -> result request := request_of_head_gen false false.

(* ---- body readers ----
   AsyncReadExt::take(limit) over (&mut buf).chain(&mut stream), driven by read_to_end: every
   poll_read delivers between 1 and min(limit, bytes of the current source) bytes; how many is
   decided by the destination slice and the socket, i.e. by the schedule.  The chain reads the
   buffer until it is empty, then the stream; Take answers 0 (= end) once the limit is used up
   without touching the inner reader.  [limit = None] is the unsized reader (no Take). *)
Definition next_want (sched : list nat) : nat :=
  match sched with [] => 1%nat | k :: _ => Nat.max 1 k end.

(* the bytes one poll_read delivers from the source [src]: at most [want], at most the limit *)
Definition take_piece (limit : option N) (want : nat) (src : bytes) : bytes :=
  let p := firstn want src in
  match limit with Some l => ntake l p | None => p end.
Definition limit_sub (limit : option N) (piece : bytes) : option N :=
  match limit with Some l => Some (l - nlen piece) | None => None end.
Definition limit_done (limit : option N) : bool :=
  match limit with Some l => l =? 0 | None => false end.

(* result: (bytes read, (buffer, stream) afterwards) *)
Fixpoint read_limited (fuel : nat) (limit : option N) (buf stream : bytes) (sched : list nat)
  : bytes * (bytes * bytes) :=
  match fuel with
  | O => ([], (buf, stream))
  | S f =>
      if limit_done limit then ([], (buf, stream)) else
      match buf with
      | _ :: _ =>
          let piece := take_piece limit (next_want sched) buf in
          let '(got, rest) :=
            read_limited f (limit_sub limit piece) (skipn (length piece) buf) stream (tl sched) in
          (piece ++ got, rest)
      | [] =>
          match stream with
          | [] => ([], (buf, stream))
          | _ :: _ =>
              let piece := take_piece limit (next_want sched) stream in
              let '(got, rest) :=
                read_limited f (limit_sub limit piece) [] (skipn (length piece) stream) (tl sched) in
              (piece ++ got, rest)
          end
      end
  end.

Inductive body_result :=
| BrNone                 (* no pending body; read_state stays Head *)
| BrVec (b : bytes)      (* RequestBody::Vec *)
| BrTruncated            (* HttpError::Truncated *)
| BrRefused              (* HttpError::UnsupportedTransferEncoding, nothing consumed *)
| BrDeferred.            (* longer than small_body_len: the server does not read it into memory *)

(* HttpConn::read_body_to_vec, arms ReadState::Body{..} *)
Definition read_body_to_vec (chunked gzip : bool) (len : option N) (buf stream : bytes)
           (sched : list nat) : body_result * (bytes * bytes) :=
  if chunked || gzip then (BrRefused, (buf, stream)) else
  let fuel := S (length buf + length stream) in
  match len with
  | Some n =>
      let '(got, rest) := read_limited fuel (Some n) buf stream sched in
      if nlen got <? n then (BrTruncated, rest) else (BrVec got, rest)
  | None =>
      let '(got, rest) := read_limited fuel None buf stream sched in
      (BrVec got, rest)
  end.

(* ---- one message, and message after message, over an abstract head reader ---- *)
Section Stream.
  Variable head : Type.
  Variable h_method : head -> bytes.
  Variable h_headers : head -> hlist.
  (* the schedule-free meaning of read_http_head (C01: the loop is a function of the bytes only):
     the parsed head and the bytes after it *)
  Variable read_head : bytes -> option (head * bytes).
  Variable small : N.            (* small_body_len *)
  Variables d3 d4 : bool.

  Inductive msg_result :=
  | MHeadFail
  | MErr (h : head) (e : req_error)
  | MReq (h : head) (r : request) (b : body_result).

  (* [split]: read_http_head leaves the bytes after the head partly in the FixedBuf and partly
     unread in the socket; where the boundary lies depends on the read schedule.
     Result: (what happened, (buffer, stream) afterwards, may the connection go on?) *)
  Definition msg_step (buf stream : bytes) (split : nat) (sched : list nat)
    : msg_result * (bytes * bytes) * bool :=
    match read_head (buf ++ stream) with
    | None => (MHeadFail, (buf, stream), false)
    | Some (h, rest) =>
        let b := firstn split rest in
        let s := skipn split rest in
        match request_of_head_gen d3 d4 (h_method h) (h_headers h) with
        | QErr e => (MErr h e, (b, s), false)
        | QOk r =>
            match rq_body r with
            | BodyEmpty => (MReq h r BrNone, (b, s), true)
            | PendingKnown n =>
                if small <? n then (MReq h r BrDeferred, (b, s), false)
                else
                  let '(br, bs) := read_body_to_vec (rq_chunked r) (rq_gzip r) (Some n) b s sched in
                  (MReq h r br, bs, match br with BrVec _ => true | _ => false end)
            | PendingUnknown =>
                let '(br, bs) := read_body_to_vec (rq_chunked r) (rq_gzip r) None b s sched in
                (MReq h r br, bs, false)
            end
        end
    end.

  (* read up to [n] messages one after the other *)
  Fixpoint pipeline (n : nat) (buf stream : bytes) (splits : list nat) (scheds : list (list nat))
    : list msg_result * (bytes * bytes) :=
    match n with
    | O => ([], (buf, stream))
    | S n' =>
        let '(m, bs, cont) := msg_step buf stream (hd O splits) (hd [] scheds) in
        if cont then
          let '(ms, fin) := pipeline n' (fst bs) (snd bs) (tl splits) (tl scheds) in (m :: ms, fin)
        else ([m], bs)
    end.
End Stream.
Arguments MHeadFail {head}.
Arguments MErr {head} h e.
Arguments MReq {head} h r b.

(* ---- instantiation used by the correspondence driver: the head of every message is GIVEN (it is
   what the real Head::try_read returned); the bytes after it start behind the first CRLFCRLF ---- *)
Definition head_in := (bytes * hlist)%type.
Definition crlfcrlf : bytes := [13; 10; 13; 10].
Definition after_head (data : bytes) : option bytes :=
  match find_slice crlfcrlf data with
  | Some k => Some (skipn (k + 4) data)
  | None => None
  end.
Definition read_head_given (h : option head_in) (data : bytes) : option (head_in * bytes) :=
  match h, after_head data with
  | Some hh, Some rest => Some (hh, rest)
  | _, _ => None
  end.

Fixpoint run_given (small : N) (d3 d4 : bool) (heads : list (option head_in)) (buf stream : bytes)
         (splits : list nat) (scheds : list (list nat)) : list (msg_result head_in * bytes) :=
  match heads with
  | [] => []
  | h :: t =>
      let '(m, bs, cont) :=
        msg_step head_in fst snd (read_head_given h) small d3 d4 buf stream (hd O splits) (hd [] scheds) in
      (m, fst bs ++ snd bs) ::
      (if cont then run_given small d3 d4 t (fst bs) (snd bs) (tl splits) (tl scheds) else [])
  end.

(* ---- what the request handler of a real server gets to see (handle_http_conn_once): a message
   reaches the handler unless reading the request or its small known-length body fails; the body
   is handed over in memory only when its length is known and <= small_body_len, otherwise the
   handler sees a pending body (and, answering without fetching it, ends the connection). ---- *)
Inductive seen_body := SbNone | SbVec (b : bytes) | SbPending.
Definition handler_call {head} (m : msg_result head) : option (bytes * option N * seen_body) :=
  match m with
  | MReq _ r br =>
      match rq_body r, br with
      | BodyEmpty, _ => Some (rq_method r, rq_clen r, SbNone)
      | PendingUnknown, _ => Some (rq_method r, rq_clen r, SbPending)
      | PendingKnown _, BrVec b => Some (rq_method r, rq_clen r, SbVec b)
      | PendingKnown _, BrDeferred => Some (rq_method r, rq_clen r, SbPending)
      | PendingKnown _, _ => None          (* read_body_to_vec failed: error response, no handler call *)
      end
  | _ => None
  end.
Fixpoint handler_log {head} (ms : list (msg_result head)) : list (bytes * option N * seen_body) :=
  match ms with
  | [] => []
  | m :: t => match handler_call m with Some c => c :: handler_log t | None => handler_log t end
  end.
