(* Model/Server.v -- executable model of handle_http_conn_once and handle_http_conn
   (src/http_conn.rs) on top of the connection machine of Model/Conn.v, with the application
   handler as a Section variable.  Used by C04 (exchange integrity), C09 (body size limits),
   C10 (temp files) and the connection half of C13.  Definitions only. *)
From SV Require Import Base.Bytes Base.IO Model.Conn.

(* what the handler sees of the request body *)
Inductive bview :=
| BV_Empty                      (* RequestBody::empty() *)
| BV_PendingKnown (n : N)
| BV_PendingUnknown
| BV_Mem (b : bytes)            (* RequestBody::Vec *)
| BV_File (b : bytes).          (* RequestBody::TempFile: content of the file *)

Section Server.
Variable payload : Type.
Variable resp : Type.
Variable read_req : cin -> (herr + (payload * reqmeta)) * cin.
Variable resp_code : resp -> N.
Variable write_out : resp -> bool -> option herr * bytes.
Variable resp_continue : resp.
Variable fix16 : bool.
(* From<HttpError> for Response; None = Response::drop_connection() (not writable) *)
Variable error_response : herr -> resp.

(* ResponseKind of what the handler returns.  A panicking handler is converted to
   Normal(Response::text(500, "Server error")) by HttpServerBuilder::spawn before it reaches
   handle_http_conn_once, so a panic is the value HNormal r500 here. *)
Inductive hres :=
| HNormal (r : resp)
| HDrop
| HGetBody (max_len : N).

Variable handler : payload -> bview -> hres.
(* fix5 = the repair of D5 is present: a Normal answer to a pending-body request is kept and sent
   instead of being discarded and the handler called again *)
Variable fix5 : bool.

Variable small_body_len : N.
(* opt_cache_dir: None = not configured; Some ok = configured, and files can(not) be created there *)
Variable cache_dir : option bool.

Notation conn := Conn.conn.
Notation rd_request := (read_request payload read_req).
Notation rd_vec := (read_body_to_vec resp resp_code write_out resp_continue fix16).
Notation rd_file := (read_body_to_file resp resp_code write_out resp_continue fix16).
Notation wr_response := (write_response resp resp_code write_out).

(* one handler invocation, as recorded in the log *)
Record invocation := mk_inv { iv_req : payload; iv_body : bview; iv_ans : hres }.

(* temp-file effects (C10) *)
Inductive fevent := FCreate | FDropInReader | FHandOver | FDropWithRequest.

Record once_out := mk_once {
  oo_res : option herr;           (* None = Ok(()) *)
  oo_conn : conn;
  oo_log : list invocation;
  oo_files : list fevent
}.

Definition is_4xx_5xx (code : N) : bool := (code / 100 =? 4) || (code / 100 =? 5).

(* the tail of handle_http_conn_once: given the final answer *)
Definition finish (c : conn) (log : list invocation) (files : list fevent) (ans : hres) : once_out :=
  match ans with
  | HDrop => mk_once (Some Disconnected) c log files
  | HGetBody _ => mk_once (Some AlreadyGotBody) c log files
  | HNormal r =>
      if is_4xx_5xx (resp_code r)
      then let '(_, c') := wr_response c r in mk_once (Some Disconnected) c' log files
      else let '(res, c') := wr_response c r in mk_once res c' log files
  end.

(* temp-file events of a read_body_to_file call, from the state before and the result *)
Definition file_events (c : conn) (dir_ok : bool) (max_len : N) (res : body_res) : list fevent :=
  match res with
  | BR_File _ => [FCreate; FHandOver]
  | BR_Vec _ => []
  | BR_Err e =>
      match e with
      | Truncated => if dir_ok then [FCreate; FDropInReader] else []
      | BodyTooLong =>
          match c_rs c with
          | RS_Body None _ _ _ => if dir_ok then [FCreate; FDropInReader] else []
          | _ => []
          end
      | _ => []
      end
  end.

(* the `PendingKnown(..) | PendingUnknown` arm: ask the handler first *)
Definition pending (p : payload) (view : bview) (c1 : conn) : once_out :=
  let a1 := handler p view in
  let log1 := [mk_inv p view a1] in
  match a1 with
  | HNormal r =>
      if fix5 then finish c1 log1 [] a1
      else (* before the repair: the answer was dropped and the handler run again, same view *)
        let a2 := handler p view in finish c1 (log1 ++ [mk_inv p view a2]) [] a2
  | HDrop => mk_once (Some Disconnected) c1 log1 []
  | HGetBody max_len =>
      match cache_dir with
      | None => mk_once (Some CacheDirNotConfigured) c1 log1 []
      | Some dir_ok =>
          match rd_file c1 dir_ok max_len with
          | (BR_File b, c2) =>
              let a2 := handler p (BV_File b) in
              finish c2 (log1 ++ [mk_inv p (BV_File b) a2]) [FCreate; FHandOver; FDropWithRequest] a2
          | (BR_Vec b, c2) => mk_once (Some BodyNotAvailable) c2 log1 []     (* unreachable *)
          | (BR_Err e, c2) => mk_once (Some e) c2 log1 (file_events c1 dir_ok max_len (BR_Err e))
          end
      end
  end.

(* handle_http_conn_once *)
Definition handle_once (c : conn) : once_out :=
  match rd_request c with
  | (inl e, c1) => mk_once (Some e) c1 [] []
  | (inr p, c1) =>
      match c_rs c1 with
      | RS_Body (Some len) _ _ _ =>
          if len <=? small_body_len then
            (* small body: read it to memory, then one handler run *)
            match rd_vec c1 with
            | (BR_Err e, c2) => mk_once (Some e) c2 [] []
            | (BR_Vec b, c2) => let a := handler p (BV_Mem b) in finish c2 [mk_inv p (BV_Mem b) a] [] a
            | (BR_File b, c2) => mk_once (Some BodyNotAvailable) c2 [] []   (* unreachable *)
            end
          else pending p (BV_PendingKnown len) c1
      | RS_Body None _ _ _ => pending p BV_PendingUnknown c1
      | _ => let a := handler p BV_Empty in finish c1 [mk_inv p BV_Empty a] [] a
      end
  end.

(* handle_http_conn: `while !permit.is_revoked() { if !is_ready { return } once; match result }`.
   [revoked k] = the permit is found revoked at the head of iteration k.  Fuel bounds the number of
   iterations; every iteration that returns Ok consumed a request head, so
   length(input) + 1 iterations always suffice (Proofs/ServerP.v). *)
Variable revoked : nat -> bool.

Record loop_out := mk_loop {
  lo_conn : conn;
  lo_log : list invocation;
  lo_files : list fevent;
  lo_iters : nat;                 (* iterations entered *)
  lo_out_of_fuel : bool
}.

Fixpoint conn_loop (fuel : nat) (k : nat) (c : conn) (log : list invocation) (files : list fevent) : loop_out :=
  match fuel with
  | O => mk_loop c log files k true
  | S f =>
      if revoked k then mk_loop c log files k false
      else if negb (is_ready c) then mk_loop c log files k false
      else
        let o := handle_once c in
        let log' := log ++ oo_log o in
        let files' := files ++ oo_files o in
        match oo_res o with
        | None => conn_loop f (S k) (oo_conn o) log' files'
        | Some Disconnected => mk_loop (oo_conn o) log' files' (S k) false
        | Some e =>
            let '(_, c') := wr_response (oo_conn o) (error_response e) in
            mk_loop (shutdown_write c') log' files' (S k) false
        end
  end.

Definition handle_conn (fuel : nat) (i : cin) : loop_out := conn_loop fuel O (conn_new i) [] [].

End Server.
