(* Model/Json.v -- executable model of the JSONL rendering of a log event:
     write_json_string, Display for TagValue   (src/log/tag_value.rs)
     Display for TagList                       (src/log/tag_list.rs)
     LogEvent::write_jsonl                     (src/log/logger.rs)
   plus the code before the repair of D13 (Rust Debug formatting of strings, bare NaN / inf),
   the expected parse result (spec side) and the boolean oracle of C17.
   Text is a list of Unicode scalar values.  Definitions only; proofs are in Proofs/JsonP.v. *)
From SV Require Import Base.Bytes Spec.Json8259.
From Coq Require Import ZArith.

Inductive level := LError | LInfo | LDebug.

(* TagValue.  Str and String are both [VStr]; the twelve integer variants (I8..I128, U8..U128,
   Usize) are [VInt] -- their Display impls all print the decimal numeral of the mathematical
   value, which is what [display_int] does for every [Z].  [VFloat] holds the text produced by
   Rust's Display for f32 / f64 (TagValue::Float(String)). *)
Inductive tag_value :=
| VStr (s : text)
| VBool (b : bool)
| VInt (z : Z)
| VFloat (t : text)
| VNull.
Definition tag := (text * tag_value)%type.

(* ---------------------------------------------------------------- write_json_string *)
Definition hex_digit (n : N) : N := if n <? 10 then 48 + n else 87 + n.      (* {:x} *)
Definition escape_char (c : N) : text :=
  if c =? 34 then [92; 34]
  else if c =? 92 then [92; 92]
  else if c =? 10 then [92; 110]
  else if c =? 13 then [92; 114]
  else if c =? 9 then [92; 116]
  else if c <? 32 then [92; 117; 48; 48; hex_digit (c / 16); hex_digit (c mod 16)]   (* \u{:04x} *)
  else [c].
Definition escape_text (s : text) : text := flat_map escape_char s.
Definition write_json_string (s : text) : text := 34 :: escape_text s ++ [34].

(* ---------------------------------------------------------------- Display for TagValue *)
Definition display_int (z : Z) : text :=
  if (z <? 0)%Z then 45 :: dec (Z.abs_N z) else dec (Z.to_N z).

Fixpoint ends_with_rev (p s : text) : bool :=      (* both reversed *)
  match p, s with
  | [], _ => true
  | x :: p', y :: s' => (x =? y) && ends_with_rev p' s'
  | _ :: _, [] => false
  end.
Definition ends_with (s suffix : text) : bool := ends_with_rev (rev suffix) (rev s).
Definition t_NaN : text := [78; 97; 78].
Definition t_inf : text := [105; 110; 102].
Definition t_neg_inf : text := [45; 105; 110; 102].
Definition t_true : text := [116; 114; 117; 101].
Definition t_false : text := [102; 97; 108; 115; 101].
Definition t_null : text := [110; 117; 108; 108].

Definition display_value (v : tag_value) : text :=
  match v with
  | VStr s => write_json_string s
  | VBool b => if b then t_true else t_false
  | VInt z => display_int z
  | VFloat t => if ends_with t t_NaN || ends_with t t_inf then write_json_string t else t
  | VNull => t_null
  end.

(* ---------------------------------------------------------------- Display for TagList *)
Definition display_tag (tg : tag) : text := write_json_string (fst tg) ++ 58 :: display_value (snd tg).
Fixpoint display_taglist (tags : list tag) : text :=
  match tags with
  | [] => []
  | [tg] => display_tag tg
  | tg :: rest => display_tag tg ++ 44 :: display_taglist rest
  end.

(* ---------------------------------------------------------------- LogEvent::write_jsonl *)
Definition level_text (l : level) : text :=
  match l with
  | LError => [101; 114; 114; 111; 114]
  | LInfo => [105; 110; 102; 111]
  | LDebug => [100; 101; 98; 117; 103]
  end.
Definition k_time : text := [116; 105; 109; 101].
Definition k_level : text := [108; 101; 118; 101; 108].
Definition k_time_ns : text := [116; 105; 109; 101; 95; 110; 115].
(*  { QUOTE time QUOTE : QUOTE  *)
Definition lit_open : text := [123; 34; 116; 105; 109; 101; 34; 58; 34].
(*  QUOTE , QUOTE level QUOTE : QUOTE  *)
Definition lit_level : text := [34; 44; 34; 108; 101; 118; 101; 108; 34; 58; 34].
(*  QUOTE ,  *)
Definition lit_after_level : text := [34; 44].
(*  QUOTE time_ns QUOTE :  *)
Definition lit_time_ns : text := [34; 116; 105; 109; 101; 95; 110; 115; 34; 58].

(* [time] is the 20-character text yyyy-mm-ddThh:mm:ssZ produced by the {:04}/{:02} format
   arguments (calendar model: C16); here it is a parameter constrained by [time_text_ok].
   [time_ns] is the u64 epoch_ns(). *)
Definition write_jsonl (time : text) (time_ns : N) (lvl : level) (tags : list tag) : text :=
  lit_open ++ time ++ lit_level ++ level_text lvl ++ lit_after_level ++
  (if is_nil tags then lit_time_ns ++ dec time_ns
   else display_taglist tags ++ 44 :: lit_time_ns ++ dec time_ns) ++ [125; 10].

(* ---------------------------------------------------------------- the code before the repair of D13 *)
(* Rust's Debug for str (char::escape_debug_ext) on the characters that matter here: NUL, TAB, CR,
   LF, reverse solidus and quotation mark as two-character escapes; other C0 controls, DEL, C1 controls and U+200B (not
   printable per core::unicode::printable) as \u{h..h} without padding; everything else raw.
   The complete is_printable / grapheme-extend tables are not reproduced. *)
Fixpoint hex_digits_fuel (fuel : nat) (n : N) (acc : text) : text :=
  match fuel with
  | O => acc
  | S f => let acc' := hex_digit (n mod 16) :: acc in
           if n <? 16 then acc' else hex_digits_fuel f (n / 16) acc'
  end.
Definition hex_lower (n : N) : text := hex_digits_fuel (S (N.to_nat (N.log2 n))) n [].
Definition debug_escape_char (c : N) : text :=
  if c =? 0 then [92; 48]
  else if c =? 34 then [92; 34]
  else if c =? 92 then [92; 92]
  else if c =? 10 then [92; 110]
  else if c =? 13 then [92; 114]
  else if c =? 9 then [92; 116]
  else if (c <? 32) || in_range 127 159 c || (c =? 8203)
       then [92; 117; 123] ++ hex_lower c ++ [125]
  else [c].
Definition debug_string (s : text) : text := 34 :: flat_map debug_escape_char s ++ [34].
Definition display_value_prefix (v : tag_value) : text :=
  match v with
  | VStr s => debug_string s
  | VFloat t => t
  | _ => display_value v
  end.
Definition display_tag_prefix (tg : tag) : text :=
  debug_string (fst tg) ++ 58 :: display_value_prefix (snd tg).
Fixpoint display_taglist_prefix (tags : list tag) : text :=
  match tags with
  | [] => []
  | [tg] => display_tag_prefix tg
  | tg :: rest => display_tag_prefix tg ++ 44 :: display_taglist_prefix rest
  end.
Definition write_jsonl_prefix (time : text) (time_ns : N) (lvl : level) (tags : list tag) : text :=
  lit_open ++ time ++ lit_level ++ level_text lvl ++ lit_after_level ++
  (if is_nil tags then lit_time_ns ++ dec time_ns
   else display_taglist_prefix tags ++ 44 :: lit_time_ns ++ dec time_ns) ++ [125; 10].

(* ---------------------------------------------------------------- specification side *)
(* The timestamp text: printable scalar values, no quotation mark, no reverse solidus, no control. *)
Definition plain_char (c : N) : bool := (32 <=? c) && negb (c =? 34) && negb (c =? 92) && is_scalar c.
Definition time_text_ok (t : text) : bool := forallb plain_char t.

(* float_text_grammar: what Rust's Display prints for a FINITE f32 / f64 -- an optional minus, an
   integer part without a superfluous leading zero, optionally a point and at least one digit
   (Display never uses an exponent).  [float_parts] splits such a text. *)
Fixpoint split_dot (t : text) : text * option text :=
  match t with
  | [] => ([], None)
  | c :: r => if c =? 46 then ([], Some r) else let (a, b) := split_dot r in (c :: a, b)
  end.
Definition float_parts (t : text) : option (bool * text * text) :=
  let (neg, u) := match t with
                  | c :: r => if c =? 45 then (true, r) else (false, t)
                  | [] => (false, t)
                  end in
  let (ip, fo) := split_dot u in
  let fp := match fo with Some f => f | None => [] end in
  let fp_ok := match fo with Some f => negb (is_nil f) | None => true end in
  if forallb is_digit ip && int_part_ok ip && forallb is_digit fp && fp_ok
  then Some (neg, ip, fp) else None.
Definition float_finite_ok (t : text) : bool :=
  match float_parts t with Some _ => true | None => false end.
Definition float_nonfinite (t : text) : bool := beq t t_NaN || beq t t_inf || beq t t_neg_inf.
Definition float_text_ok (t : text) : bool := float_nonfinite t || float_finite_ok t.

(* well-formed inputs: every string is a scalar-value string (any Rust str is), every float text
   is in the image of Display *)
Definition value_wf (v : tag_value) : bool :=
  match v with
  | VStr s => is_text s
  | VFloat t => float_text_ok t
  | _ => true
  end.
Definition tag_wf (tg : tag) : bool := is_text (fst tg) && value_wf (snd tg).
Definition tags_wf (tags : list tag) : bool := forallb tag_wf tags.

(* the JSON value a tag value must be read back as *)
Definition decimal_of_float_text (t : text) : jvalue :=
  match float_parts t with
  | Some (neg, ip, fp) => JNumber neg (digits_value (ip ++ fp)) (- Z.of_nat (length fp))
  | None => JNull
  end.
Definition expected_value (v : tag_value) : jvalue :=
  match v with
  | VStr s => JString s
  | VBool b => if b then JTrue else JFalse
  | VInt z => JNumber (z <? 0)%Z (Z.abs_N z) 0
  | VFloat t => if float_nonfinite t then JString t else decimal_of_float_text t
  | VNull => JNull
  end.
Definition expected_members (time : text) (time_ns : N) (lvl : level) (tags : list tag) : list member :=
  (k_time, JString time) :: (k_level, JString (level_text lvl)) ::
  map (fun tg => (fst tg, expected_value (snd tg))) tags ++ [(k_time_ns, JNumber false time_ns 0)].

(* ---------------------------------------------------------------- oracle of C17 *)
(* Decides, for the event (lvl, tags) and the line some implementation wrote for it, the conclusion
   of [jsonl_roundtrip]: the line is one LF-terminated line (no other LF -- checked inside
   [parse_line]), an RFC 8259 object, its members are time (a 20-character plain text), level, one
   member per tag in order with the tag's name and value, and time_ns (a non-negative integer). *)
Definition members_match (lvl : level) (tags : list tag) (ms : list member) : bool :=
  match ms with
  | (kt, JString time) :: rest =>
      beq kt k_time && time_text_ok time && (length time =? 20)%nat &&
      match rev rest with
      | (kn, JNumber false ns 0%Z) :: mid_rev =>
          beq kn k_time_ns &&
          list_beq member_eqb (rev mid_rev)
            ((k_level, JString (level_text lvl)) ::
             map (fun tg => (fst tg, expected_value (snd tg))) tags)
      | _ => false
      end
  | _ => false
  end.
Definition oracle_c17 (lvl : level) (tags : list tag) (line : text) : bool :=
  match parse_line line with
  | Some ms => members_match lvl tags ms && (length ms =? 3 + length tags)%nat
  | None => false
  end.
Definition oracle_c17_utf8 (lvl : level) (tags : list tag) (bytes : list N) : bool :=
  match utf8_decode bytes with
  | Some line => oracle_c17 lvl tags line
  | None => false
  end.

(* driver helpers: the time text and time_ns of a line some implementation wrote (they vary per
   call; the model is instantiated with them) *)
Definition line_time (line : text) : text := firstn 20 (skipn 9 line).
Fixpoint take_digits_rev (s : text) (acc : text) : text :=
  match s with
  | c :: t => if is_digit c then take_digits_rev t (c :: acc) else acc
  | [] => acc
  end.
Definition line_time_ns (line : text) : N :=
  match rev_append line [] with      (* = rev line, in linear time (List.rev is quadratic) *)
  | _ :: _ :: r => digits_value (take_digits_rev r [])
  | _ => 0
  end.
(* driver helper: an integer from sign and magnitude *)
Definition z_of_sign_mag (neg : bool) (m : N) : Z := if neg then Z.opp (Z.of_N m) else Z.of_N m.
