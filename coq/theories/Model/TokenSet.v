(* Model/TokenSet.v -- executable model of src/token_set.rs.  Definitions only; proofs are in
   Proofs/AcceptP.v.

   TokenSet(sender, receiver) is a bounded channel `sync_channel(size)` pre-filled with `size`
   units.  A Token is a clone of the sender; taking a token receives one unit, dropping a token
   does `let _ = sender.try_send(())`, i.e. the unit is silently LOST when the channel is full.
   The model keeps the number of units in the channel, the number of live Tokens and the number of
   units lost by a failed try_send (proved to stay 0). *)
From Coq Require Import List Arith Bool NArith.
Import ListNotations.

Record tset := mk_tset { ts_size : nat; ts_avail : nat; ts_live : nat; ts_lost : nat }.

(* TokenSet::new(size): sync_channel(size), then `size` times try_send(()).unwrap() *)
Definition ts_new (n : nat) : tset := mk_tset n n 0 0.

(* Receiver::recv / async_recv / recv_timeout: a unit is taken when one is there;
   None = the call blocks (wait_token, async_wait_token) or times out (wait_token_timeout). *)
Definition ts_recv (t : tset) : option tset :=
  match ts_avail t with
  | O => None
  | S k => Some (mk_tset (ts_size t) k (S (ts_live t)) (ts_lost t))
  end.

(* Token::drop: `let _ = self.0.try_send(());`  -- Full => the unit is dropped on the floor. *)
Definition ts_drop (t : tset) : tset :=
  if ts_avail t <? ts_size t
  then mk_tset (ts_size t) (S (ts_avail t)) (pred (ts_live t)) (ts_lost t)
  else mk_tset (ts_size t) (ts_avail t) (pred (ts_live t)) (S (ts_lost t)).

(* ---- API-sequence language of the correspondence check (a) ---- *)
Inductive pop :=
| PTake               (* wait_token() when a unit is available, wait_token_timeout(short) otherwise *)
| PTry                (* wait_token_timeout(short) *)
| PDrop (i : nat).    (* drop the i-th live Token (position in acquisition order) *)

Inductive pobs := OGot | OTimeout | ODropped | OBad.

Definition pstep (t : tset) (o : pop) : tset * pobs :=
  match o with
  | PTake | PTry => match ts_recv t with Some t' => (t', OGot) | None => (t, OTimeout) end
  | PDrop i => if i <? ts_live t then (ts_drop t, ODropped) else (t, OBad)
  end.

Fixpoint prun (t : tset) (ops : list pop) : tset * list pobs :=
  match ops with
  | [] => (t, [])
  | o :: r => let '(t1, ob) := pstep t o in let '(t2, obs) := prun t1 r in (t2, ob :: obs)
  end.

Fixpoint ts_drop_all (k : nat) (t : tset) : tset :=
  match k with O => t | S k' => ts_drop_all k' (ts_drop t) end.

(* what the harness prints for one sequence: per-operation results, the number of units that can
   be taken right after the sequence, and the number that can be taken after every Token still
   alive has been dropped ("all n slots usable again"). *)
Definition pool_model (n : nat) (ops : list pop) : list pobs * nat * nat :=
  let '(t, obs) := prun (ts_new n) ops in
  (obs, ts_avail t, ts_avail (ts_drop_all (ts_live t) t)).

(* The oracle: boolean form of "tokens are conserved and never over-admitted", evaluated on an
   observation (of the implementation).  [live] = Tokens the caller holds according to the
   observations so far.  A Got with live = n is an over-admission; a Timeout with live < n is a
   lost slot; the probes must equal n - live and n. *)
Fixpoint pool_oracle_steps (n live : nat) (ops : list pop) (obs : list pobs) : option nat :=
  match ops, obs with
  | [], [] => Some live
  | PDrop i :: ops', ob :: obs' =>
      if i <? live
      then match ob with ODropped => pool_oracle_steps n (pred live) ops' obs' | _ => None end
      else match ob with OBad => pool_oracle_steps n live ops' obs' | _ => None end
  | _ :: ops', OGot :: obs' => if live <? n then pool_oracle_steps n (S live) ops' obs' else None
  | _ :: ops', OTimeout :: obs' => if live =? n then pool_oracle_steps n live ops' obs' else None
  | _, _ => None
  end.

Definition oracle_c12_pool (n : nat) (ops : list pop) (o : list pobs * nat * nat) : bool :=
  let '(obs, probe1, probe2) := o in
  match pool_oracle_steps n 0 ops obs with
  | Some live => (probe1 =? n - live) && (probe2 =? n)
  | None => false
  end.

(* sizes as binary numbers (also keeps the types [positive] and [N], which the shared OCaml glue
   expects, in the extracted module) *)
Definition ts_avail_N (t : tset) : N := N.of_nat (ts_avail t).
