(* Model/ConnInst.v -- the connection machine (Model/Conn.v) and the server loop (Model/Server.v)
   instantiated with the concrete models of the code they call:
     read_req      := Head.read_request_head (src/head.rs) ; Request.request_of_head (src/request.rs)
     write_out     := Response.write_http_response into a socket that accepts everything
     error_response:= From<HttpError> for Response, taken from the table that props/c20.py
                      regenerates from src/http_error.rs (Generated/StatusTables.v)
   Definitions only. *)
From SV Require Import Base.Bytes Base.IO Model.Headers Model.IOSched Model.Chunked Model.Response.
From SV Require Model.Head Model.Request Model.Tables Spec.ErrorClasses Generated.StatusTables.
From SV Require Import Model.Conn Model.Server.

Definition cap8k : nat := N.to_nat 8192.

(* the request as handed to the caller, as far as the checks observe it *)
Record rpayload := mk_rp {
  rp_method : bytes; rp_path : bytes; rp_query : option bytes; rp_req : Request.request }.

Definition of_head_err (e : Head.http_error) : herr :=
  match e with
  | Head.E_Disconnected => Disconnected | Head.E_HeadTooLong => HeadTooLong
  | Head.E_MalformedHeaderLine => MalformedHeaderLine | Head.E_MalformedPath => MalformedPath
  | Head.E_MalformedRequestLine => MalformedRequestLine | Head.E_MissingRequestLine => MissingRequestLine
  | Head.E_Truncated => Truncated | Head.E_UnsupportedProtocol => UnsupportedProtocol
  | Head.E_InvalidContentLength => InvalidContentLength | Head.E_MalformedCookieHeader => MalformedCookieHeader
  | Head.E_UnsupportedTransferEncoding => UnsupportedTransferEncoding
  end.
Definition of_req_err (e : Request.req_error) : herr :=
  match e with
  | Request.InvalidContentLength => InvalidContentLength
  | Request.UnsupportedTransferEncoding => UnsupportedTransferEncoding
  | Request.MalformedCookieHeader => MalformedCookieHeader
  end.
Definition of_werr (e : werr) : herr :=
  match e with
  | EUnwritable => UnwritableResponse | EDupContentType => DuplicateContentTypeHeader
  | EDupContentLength => DuplicateContentLengthHeader | EDupTransferEncoding => DuplicateTransferEncodingHeader
  | EDisconnected => Disconnected | EReadFile => ErrorReadingFile | EReadBody => ErrorReadingResponseBody
  | EShortBody => ErrorReadingResponseBody | EOutOfFuel => ModelOutOfFuel
  end.

Definition meta_of (rq : Request.request) : reqmeta :=
  mk_meta (match Request.rq_body rq with
           | Request.BodyEmpty => BK_None | Request.PendingKnown n => BK_Known n | Request.PendingUnknown => BK_Unknown end)
          (Request.rq_expect rq) (Request.rq_chunked rq) (Request.rq_gzip rq).

Section Inst.
Variable url_parse : bytes -> option (bytes * option bytes).
Variable reason : N -> bytes.
Variable ct_text : nat -> bytes.
Variable plain_text : bytes.       (* ContentType::PlainText.as_str() *)

(* read_http_request on the connection's buffer and stream *)
Definition read_req_inst (i : cin) : (herr + (rpayload * reqmeta)) * cin :=
  match Head.read_request_head url_parse cap8k (cap8k + 2) (Head.mk_fbuf 0 (ci_buf i)) (ci_in i) with
  | Head.ROk h b s =>
      let i' := mk_cin (Head.fb_data b) s in
      match Request.request_of_head (Head.h_method h) (Head.h_headers h) with
      | Request.QOk rq => (inr (mk_rp (Head.h_method h) (Head.h_path h) (Head.h_query h) rq, meta_of rq), i')
      | Request.QErr e => (inl (of_req_err e), i')
      end
  | Head.RErr e b s => (inl (of_head_err e), mk_cin (Head.fb_data b) s)
  | Head.RPanic => (inl ModelPanic, i)
  | Head.ROutOfFuel => (inl ModelOutOfFuel, i)
  end.

Definition write_out_inst (r : response) (close : bool) : option herr * bytes :=
  let '(res, acc, _) := write_http_response reason ct_text r close writer_all in
  (match res with Some e => Some (of_werr e) | None => None end, acc).

Definition mem_body (data : bytes) : body := BKnown (N.of_nat (length data)) true (mkReader data []).
Definition resp_new (code : N) : response := mkResponse true code CtNone [] (mem_body []).
Definition resp_text (code : N) (text : bytes) : response := mkResponse true code (CtText plain_text) [] (mem_body text).
Definition resp_continue_inst : response := resp_new 100.

(* what HttpServerBuilder::spawn turns a panicking handler into: Response::text(500, "Server error") *)
Definition panic_code : N := 500.
Definition panic_text : bytes := [83;101;114;118;101;114;32;101;114;114;111;114].

(* enum variant name, for the lookup in the generated error table *)
Definition herr_name (e : herr) : bytes :=
  match e with
  | AlreadyGotBody => ErrorClasses.n_AlreadyGotBody | BodyNotAvailable => ErrorClasses.n_BodyNotAvailable
  | BodyNotRead => ErrorClasses.n_BodyNotRead | BodyNotUtf8 => ErrorClasses.n_BodyNotUtf8
  | BodyTooLong => ErrorClasses.n_BodyTooLong | CacheDirNotConfigured => ErrorClasses.n_CacheDirNotConfigured
  | Disconnected => ErrorClasses.n_Disconnected
  | DuplicateContentLengthHeader => ErrorClasses.n_DuplicateContentLengthHeader
  | DuplicateContentTypeHeader => ErrorClasses.n_DuplicateContentTypeHeader
  | DuplicateTransferEncodingHeader => ErrorClasses.n_DuplicateTransferEncodingHeader
  | ErrorReadingFile => ErrorClasses.n_ErrorReadingFile
  | ErrorReadingResponseBody => ErrorClasses.n_ErrorReadingResponseBody
  | ErrorSavingFile => ErrorClasses.n_ErrorSavingFile
  | HandlerDeadlineExceeded => ErrorClasses.n_HandlerDeadlineExceeded | HeadTooLong => ErrorClasses.n_HeadTooLong
  | InvalidContentLength => ErrorClasses.n_InvalidContentLength
  | MalformedCookieHeader => ErrorClasses.n_MalformedCookieHeader
  | MalformedHeaderLine => ErrorClasses.n_MalformedHeaderLine | MalformedPath => ErrorClasses.n_MalformedPath
  | MalformedRequestLine => ErrorClasses.n_MalformedRequestLine
  | MissingRequestLine => ErrorClasses.n_MissingRequestLine
  | ResponseAlreadySent => ErrorClasses.n_ResponseAlreadySent | ResponseNotSent => ErrorClasses.n_ResponseNotSent
  | TimerThreadNotStarted => ErrorClasses.n_TimerThreadNotStarted | Truncated => ErrorClasses.n_Truncated
  | UnsupportedProtocol => ErrorClasses.n_UnsupportedProtocol
  | UnsupportedTransferEncoding => ErrorClasses.n_UnsupportedTransferEncoding
  | UnwritableResponse => ErrorClasses.n_UnwritableResponse
  | ModelPanic | ModelOutOfFuel => []
  end.

(* From<HttpError> for Response via the generated table; an unwritable (drop) response for
   Disconnected and for anything the table does not know *)
Definition resp_drop : response := mkResponse false 0 CtNone [] (mem_body []).
Definition error_response_inst (e : herr) : response :=
  match Tables.lookup_err StatusTables.err_table (herr_name e) with
  | Some ent => match Tables.respond ent [] [] with
                | Some (code, text) => resp_text code text
                | None => resp_drop
                end
  | None => resp_drop
  end.

Definition cstep_inst (fix16 : bool) :=
  cstep rpayload response read_req_inst r_code write_out_inst resp_continue_inst fix16.
Definition crun_inst (fix16 : bool) :=
  crun rpayload response read_req_inst r_code write_out_inst resp_continue_inst fix16.

Definition handle_conn_inst (fix16 fix5 : bool) (handler : rpayload -> bview -> hres response)
           (small : N) (cache_dir : option bool) (revoked : nat -> bool) (fuel : nat) (i : cin) :=
  handle_conn rpayload response read_req_inst r_code write_out_inst resp_continue_inst fix16
              error_response_inst handler fix5 small cache_dir revoked fuel i.
End Inst.
