(* Model/Accept.v -- labelled transition system of src/accept.rs `accept_loop`, the token pool of
   src/token_set.rs as used by it, the task spawned by HttpServerBuilder::spawn (src/lib.rs) and
   the connection tasks `handle_http_conn` (src/http_conn.rs).  Definitions only; proofs are in
   Proofs/AcceptP.v.

   Granularity: one transition per await point / channel operation.

     accept task (program counter [loop]):
       WaitTokenOrPermit  `or(async_wait_token(), permit)`      (fixed = true:  current tree)
                          `async_wait_token().await`            (fixed = false: tree before D10)
       CheckRevoked       `if permit.is_revoked() { return }`   holds the token
       Accepting          `or(listener.accept(), permit)`       holds the token
       SleepAfterError    `sleep_for(500ms)`                    holds the token (it is a local of
                                                                the loop body, dropped at its end)
       Done               accept_loop has returned: listener and token set dropped; the spawned
                          task then sends the stopped signal ([stopped] := true).

     connection task k (phase):
       CHead     `while !permit.is_revoked()`  -- the only place the permit is read
       CIdle     inside read_request, waiting for (the rest of) a request
       CHandler  request read, handler running (includes fetching the body)
       CWriting  write_response in progress
     The Token is a parameter of handle_http_conn and is dropped when the task ends. *)
From Coq Require Import List Arith Bool.
Import ListNotations.

Inductive pc := WaitTokenOrPermit | CheckRevoked | Accepting | SleepAfterError | Done.
Inductive cphase := CHead | CIdle | CHandler | CWriting.

Record conn := mk_conn {
  c_id : nat;
  c_phase : cphase;
  c_reqs : nat;          (* handler runs begun on this connection *)
  c_after : nat;         (* ... of which begun after the permit was revoked *)
  c_done : nat;          (* complete responses written *)
  c_born_revoked : bool  (* accepted when the permit was already revoked *)
}.

Record st := mk_st {
  loop : pc;
  avail : nat;           (* units in the token channel *)
  conns : list conn;     (* live connection tasks, each owning one Token *)
  revoked : bool;
  listening : bool;      (* the listening socket is open *)
  stopped : bool;        (* the stopped signal has been sent *)
  next_id : nat;         (* number of connections accepted so far *)
  lost : nat             (* units lost by a failed try_send in Token::drop *)
}.

Definition init (n : nat) : st := mk_st WaitTokenOrPermit n [] false true false 0 0.

Inductive action :=
| Loop                   (* the accept task runs to its next await point *)
| IncomingOk             (* accept() returns a connection *)
| IncomingErr            (* accept() returns an error (EMFILE or other) *)
| ConnEnd (k : nat)      (* connection task k ends for a reason outside the server's control:
                            client close/abort, malformed request, error answer, handler panic,
                            handler dropped the connection, I/O error *)
| Revoke                 (* the server's permit is revoked *)
| ConnReq (k : nat)      (* a complete request arrives on idle connection k; its handler starts *)
| ConnStep (k : nat).    (* connection task k runs to its next await point *)

(* tokens held by the accept task *)
Definition held (s : st) : nat :=
  match loop s with CheckRevoked | Accepting | SleepAfterError => 1 | _ => 0 end.

(* Token::drop = try_send on the channel of capacity n *)
Definition put (n av lo : nat) : nat * nat := if av <? n then (S av, lo) else (av, S lo).

Fixpoint find_conn (k : nat) (cs : list conn) : option conn :=
  match cs with
  | [] => None
  | c :: r => if c_id c =? k then Some c else find_conn k r
  end.
Fixpoint remove_conn (k : nat) (cs : list conn) : list conn :=
  match cs with
  | [] => []
  | c :: r => if c_id c =? k then r else c :: remove_conn k r
  end.
Fixpoint update_conn (k : nat) (c' : conn) (cs : list conn) : list conn :=
  match cs with
  | [] => []
  | c :: r => if c_id c =? k then c' :: r else c :: update_conn k c' r
  end.

Definition set_conns (s : st) (cs : list conn) : st :=
  mk_st (loop s) (avail s) cs (revoked s) (listening s) (stopped s) (next_id s) (lost s).
(* connection task k ends: removed, its Token dropped *)
Definition end_conn (n : nat) (s : st) (k : nat) : st :=
  let '(av, lo) := put n (avail s) (lost s) in
  mk_st (loop s) av (remove_conn k (conns s)) (revoked s) (listening s) (stopped s) (next_id s) lo.

Definition step_loop (fixed : bool) (n : nat) (s : st) : option st :=
  match loop s with
  | WaitTokenOrPermit =>
      (* `or` polls the token wait first *)
      match avail s with
      | S k => Some (mk_st CheckRevoked k (conns s) (revoked s) (listening s) (stopped s) (next_id s) (lost s))
      | O => if fixed && revoked s
             then (* `return` without a token; listener dropped *)
               Some (mk_st Done 0 (conns s) (revoked s) false (stopped s) (next_id s) (lost s))
             else None
      end
  | CheckRevoked =>
      if revoked s
      then let '(av, lo) := put n (avail s) (lost s) in
           Some (mk_st Done av (conns s) (revoked s) false (stopped s) (next_id s) lo)
      else Some (mk_st Accepting (avail s) (conns s) (revoked s) (listening s) (stopped s) (next_id s) (lost s))
  | Accepting =>
      (* the permit branch of the `or`: `None => {}`, token dropped at the end of the iteration *)
      if revoked s
      then let '(av, lo) := put n (avail s) (lost s) in
           Some (mk_st WaitTokenOrPermit av (conns s) (revoked s) (listening s) (stopped s) (next_id s) lo)
      else None
  | SleepAfterError =>
      let '(av, lo) := put n (avail s) (lost s) in
      Some (mk_st WaitTokenOrPermit av (conns s) (revoked s) (listening s) (stopped s) (next_id s) lo)
  | Done =>
      if stopped s then None
      else Some (mk_st Done (avail s) (conns s) (revoked s) (listening s) true (next_id s) (lost s))
  end.

Definition step (fixed : bool) (n : nat) (s : st) (a : action) : option st :=
  match a with
  | Loop => step_loop fixed n s
  | IncomingOk =>
      match loop s with
      | Accepting =>
          (* conn_handler(permit.new_sub(), token, stream, addr): the token moves to the new task *)
          Some (mk_st WaitTokenOrPermit (avail s)
                      (conns s ++ [mk_conn (next_id s) CHead 0 0 0 (revoked s)])
                      (revoked s) (listening s) (stopped s) (S (next_id s)) (lost s))
      | _ => None
      end
  | IncomingErr =>
      match loop s with
      | Accepting => Some (mk_st SleepAfterError (avail s) (conns s) (revoked s) (listening s) (stopped s) (next_id s) (lost s))
      | _ => None
      end
  | ConnEnd k =>
      match find_conn k (conns s) with
      | Some _ => Some (end_conn n s k)
      | None => None
      end
  | Revoke => Some (mk_st (loop s) (avail s) (conns s) true (listening s) (stopped s) (next_id s) (lost s))
  | ConnReq k =>
      match find_conn k (conns s) with
      | Some c =>
          match c_phase c with
          | CIdle => Some (set_conns s (update_conn k
                        (mk_conn (c_id c) CHandler (S (c_reqs c))
                                 (if revoked s then S (c_after c) else c_after c) (c_done c) (c_born_revoked c))
                        (conns s)))
          | _ => None
          end
      | None => None
      end
  | ConnStep k =>
      match find_conn k (conns s) with
      | Some c =>
          match c_phase c with
          | CHead => if revoked s then Some (end_conn n s k)
                     else Some (set_conns s (update_conn k
                            (mk_conn (c_id c) CIdle (c_reqs c) (c_after c) (c_done c) (c_born_revoked c)) (conns s)))
          | CIdle => None
          | CHandler => Some (set_conns s (update_conn k
                            (mk_conn (c_id c) CWriting (c_reqs c) (c_after c) (c_done c) (c_born_revoked c)) (conns s)))
          | CWriting => Some (set_conns s (update_conn k
                            (mk_conn (c_id c) CHead (c_reqs c) (c_after c) (S (c_done c)) (c_born_revoked c)) (conns s)))
          end
      | None => None
      end
  end.

Fixpoint run (fixed : bool) (n : nat) (s : st) (tr : list action) : option st :=
  match tr with
  | [] => Some s
  | a :: t => match step fixed n s a with Some s' => run fixed n s' t | None => None end
  end.

(* rank of the accept task for the bounded-stop argument *)
Definition rank (s : st) : nat :=
  match loop s with
  | Done => if stopped s then 0 else 1
  | CheckRevoked => 2
  | WaitTokenOrPermit => 3
  | Accepting => 4
  | SleepAfterError => 4
  end.

Fixpoint count_loop (tr : list action) : nat :=
  match tr with
  | [] => 0
  | Loop :: t => S (count_loop t)
  | _ :: t => count_loop t
  end.

Definition is_client_action (a : action) : bool :=
  match a with ConnEnd _ | ConnReq _ => true | _ => false end.

(* ---------------------------------------------------------------------------------------------
   Scenario interpreter used by the correspondence checks: external commands, after each of which
   the server tasks run until they block ("settle").  It produces an action list; Proofs/AcceptP.v
   shows that this list is a trace of the LTS, so every observation sequence printed by the model
   is one the LTS accepts. *)
Inductive cmd :=
| KConnect             (* a client connects (and, in full-server scenarios, sends a gated request) *)
| KEnd (k : nat)       (* connection k ends (the harness realises the kind) *)
| KRevoke
| KRequest (k : nat)   (* client k sends a further complete request *)
| KRelease (k : nat)   (* the gate of the handler running on connection k is opened (normal answer) *)
| KErrors (e : nat).   (* the next e accept() calls fail *)

Record sim := mk_sim {
  sst : st;
  pending : nat;            (* connected clients not yet accepted *)
  unread : list nat;        (* accepted-or-pending clients with an unread request in the socket *)
  nclients : nat;           (* clients connected so far = id the next client will get *)
  errs : nat;               (* accept failures still to be injected *)
  trace : list action       (* actions performed so far, oldest first *)
}.

Definition sim_init (n : nat) : sim := mk_sim (init n) 0 [] 0 0 [].

Fixpoint mem_nat (k : nat) (l : list nat) : bool :=
  match l with [] => false | x :: r => (x =? k) || mem_nat k r end.
Fixpoint del_nat (k : nat) (l : list nat) : list nat :=
  match l with [] => [] | x :: r => if x =? k then r else x :: del_nat k r end.

(* the next action of the accept task, if it can move.  In Accepting the `or` polls accept()
   first, so a waiting client (or an injected failure) wins over the revoked permit. *)
Definition next_loop_action (fixed : bool) (n : nat) (m : sim) : option action :=
  match loop (sst m) with
  | Accepting =>
      match errs m with
      | S _ => Some IncomingErr
      | O => match pending m with
             | S _ => Some IncomingOk
             | O => if revoked (sst m) then Some Loop else None
             end
      end
  | _ => match step_loop fixed n (sst m) with Some _ => Some Loop | None => None end
  end.

(* the next action of some connection task: tasks in CHead / CWriting always move, a task in CIdle
   moves when an unread request is in its socket; [full] = false freezes the tasks (direct-drive
   scenarios, where the harness' conn_handler just keeps the Token). *)
Fixpoint next_conn_action (unread : list nat) (cs : list conn) : option action :=
  match cs with
  | [] => None
  | c :: r =>
      match c_phase c with
      | CHead | CWriting => Some (ConnStep (c_id c))
      | CIdle => if mem_nat (c_id c) unread then Some (ConnReq (c_id c)) else next_conn_action unread r
      | CHandler => next_conn_action unread r
      end
  end.

Definition apply_action (fixed : bool) (n : nat) (m : sim) (a : action) : option sim :=
  match step fixed n (sst m) a with
  | None => None
  | Some s' =>
      Some (mk_sim s'
              (match a with IncomingOk => pred (pending m) | _ => pending m end)
              (match a with ConnReq k => del_nat k (unread m) | _ => unread m end)
              (nclients m)
              (match a with IncomingErr => pred (errs m) | _ => errs m end)
              (trace m ++ [a]))
  end.

Fixpoint settle (fixed full : bool) (n : nat) (fuel : nat) (m : sim) : sim :=
  match fuel with
  | O => m
  | S f =>
      match next_loop_action fixed n m with
      | Some a => match apply_action fixed n m a with Some m' => settle fixed full n f m' | None => m end
      | None =>
          if full then
            match next_conn_action (unread m) (conns (sst m)) with
            | Some a => match apply_action fixed n m a with Some m' => settle fixed full n f m' | None => m end
            | None => m
            end
          else m
      end
  end.

Definition settle_fuel (m : sim) : nat := 8 + 4 * (pending m + errs m) + 4 * length (conns (sst m)) + 4 * pending m.

Definition do_cmd (fixed full : bool) (n : nat) (m : sim) (c : cmd) : sim :=
  let m1 :=
    match c with
    | KConnect =>
        mk_sim (sst m) (S (pending m)) (if full then unread m ++ [nclients m] else unread m)
               (S (nclients m)) (errs m) (trace m)
    | KEnd k => match apply_action fixed n m (ConnEnd k) with Some m' => m' | None => m end
    | KRevoke => match apply_action fixed n m Revoke with Some m' => m' | None => m end
    | KRequest k => mk_sim (sst m) (pending m) (unread m ++ [k]) (nclients m) (errs m) (trace m)
    | KRelease k =>
        match find_conn k (conns (sst m)) with
        | Some c => match c_phase c with
                    | CHandler => match apply_action fixed n m (ConnStep k) with Some m' => m' | None => m end
                    | _ => m
                    end
        | None => m
        end
    | KErrors e => mk_sim (sst m) (pending m) (unread m) (nclients m) (errs m + e) (trace m)
    end in
  settle fixed full n (settle_fuel m1) m1.

(* what is observable after a command *)
Record aobs := mk_aobs {
  o_admitted : nat;        (* connections handed to conn_handler so far *)
  o_gauge : nat;           (* Tokens held by connection tasks = live connections *)
  o_handlers : nat;        (* handlers entered and not yet released *)
  o_done : nat;            (* complete responses written on live connections + ... (see driver) *)
  o_stopped : bool;
  o_listening : bool
}.

Definition count_phase (p : cphase) (cs : list conn) : nat :=
  length (filter (fun c => match c_phase c, p with
                           | CHead, CHead | CIdle, CIdle | CHandler, CHandler | CWriting, CWriting => true
                           | _, _ => false end) cs).

Definition observe (m : sim) : aobs :=
  let s := sst m in
  mk_aobs (next_id s) (length (conns s)) (count_phase CHandler (conns s))
          (fold_right (fun c a => c_done c + a) 0 (conns s)) (stopped s) (listening s).

Fixpoint run_cmds (fixed full : bool) (n : nat) (m : sim) (cs : list cmd) : sim * list aobs :=
  match cs with
  | [] => (m, [])
  | c :: r =>
      let m1 := do_cmd fixed full n m c in
      let '(m2, os) := run_cmds fixed full n m1 r in
      (m2, observe m1 :: os)
  end.

(* "all n slots usable again": end every live connection, then connect n + 1 fresh clients;
   the gauge must come back to exactly n (only meaningful while the permit is not revoked). *)
Definition recover_cmds (n : nat) (m : sim) : list cmd :=
  map (fun c => KEnd (c_id c)) (conns (sst m)) ++ repeat KConnect (S n).

Definition scenario (fixed full : bool) (n : nat) (cs : list cmd) : list aobs * aobs :=
  let '(m, os) := run_cmds fixed full n (sim_init n) cs in
  let '(m', _) := run_cmds fixed full n m (recover_cmds n m) in
  (os, observe m').

Fixpoint has_revoke (cs : list cmd) : bool :=
  match cs with [] => false | KRevoke :: _ => true | _ :: r => has_revoke r end.

(* ---- oracles: boolean forms of the C12 / C13 conclusions, evaluated on observed sequences ---- *)

(* C12: never more than n live connections / entered handlers; with no revocation in the history
   the full capacity is usable again afterwards. *)
Definition oracle_c12_acc (n : nat) (cs : list cmd) (o : list aobs * aobs) : bool :=
  let '(os, fin) := o in
  forallb (fun x => (o_gauge x <=? n) && (o_handlers x <=? n)) os &&
  (o_gauge fin <=? n) &&
  (if has_revoke cs then true else o_gauge fin =? n).

(* C13: walking along the commands: no stopped signal before the revocation; once revoked (and
   the tasks have settled) the signal is there, the listener is closed, and no further connection
   is admitted after the stopped signal. *)
Fixpoint oracle_c13_walk (rev : bool) (adm_at_stop : option nat) (cs : list cmd) (os : list aobs) : bool :=
  match cs, os with
  | [], [] => true
  | c :: cs', x :: os' =>
      let rev' := rev || match c with KRevoke => true | _ => false end in
      (if rev' then o_stopped x && negb (o_listening x) else negb (o_stopped x) && o_listening x) &&
      (match adm_at_stop with Some a => o_admitted x =? a | None => true end) &&
      oracle_c13_walk rev' (match adm_at_stop with
                            | Some a => Some a
                            | None => if o_stopped x then Some (o_admitted x) else None end) cs' os'
  | _, _ => false
  end.
Definition oracle_c13_acc (cs : list cmd) (o : list aobs * aobs) : bool :=
  oracle_c13_walk false None cs (fst o).

(* ---- totals along a trace, for the printed observation (handler entries, complete responses,
   connections closed by the server on its own at the loop head after the revocation) ---- *)
Record totals := mk_totals { t_entries : nat; t_done : nat; t_closed : nat }.

Fixpoint totals_run (fixed : bool) (n : nat) (s : st) (tr : list action) (t : totals) : totals :=
  match tr with
  | [] => t
  | a :: r =>
      let t' :=
        match a with
        | ConnReq k =>
            match find_conn k (conns s) with
            | Some c => match c_phase c with
                        | CIdle => mk_totals (S (t_entries t)) (t_done t) (t_closed t)
                        | _ => t end
            | None => t
            end
        | ConnStep k =>
            match find_conn k (conns s) with
            | Some c => match c_phase c with
                        | CWriting => mk_totals (t_entries t) (S (t_done t)) (t_closed t)
                        | CHead => if revoked s then mk_totals (t_entries t) (t_done t) (S (t_closed t)) else t
                        | _ => t end
            | None => t
            end
        | _ => t
        end in
      match step fixed n s a with
      | Some s' => totals_run fixed n s' r t'
      | None => t'
      end
  end.

Definition sim_totals (fixed : bool) (n : nat) (m : sim) : totals :=
  totals_run fixed n (init n) (trace m) (mk_totals 0 0 0).

(* connections the clients see closed without having asked for it: closed by their task at the
   loop head after the revocation, plus every client still waiting in the backlog (or knocking
   later) once the listening socket has been released *)
Definition sim_closed (fixed : bool) (n : nat) (m : sim) : nat :=
  t_closed (sim_totals fixed n m) + (if listening (sst m) then 0 else pending m).

(* ---- C13, connection side, on the observable totals: once the permit is revoked, every
   response that is completed is followed (before the tasks settle) by the server closing that
   connection -- so no connection serves a second further request -- and no completed response
   is ever taken back.  [ts] = after each command (complete responses read by the clients,
   connections closed by the server) as totals. *)
Fixpoint oracle_c13_conn_walk (rev : bool) (prev : nat * nat) (cs : list cmd) (ts : list (nat * nat)) : bool :=
  match cs, ts with
  | [], [] => true
  | c :: cs', t :: ts' =>
      let rev' := rev || match c with KRevoke => true | _ => false end in
      (fst prev <=? fst t) && (snd prev <=? snd t) &&
      (if rev then (fst t - fst prev <=? snd t - snd prev) else true) &&
      oracle_c13_conn_walk rev' t cs' ts'
  | _, _ => false
  end.
Definition oracle_c13_conn (cs : list cmd) (ts : list (nat * nat)) : bool :=
  oracle_c13_conn_walk false (0, 0) cs ts.

(* the model's totals after each command of a scenario *)
Fixpoint totals_cmds (fixed full : bool) (n : nat) (m : sim) (cs : list cmd) : list (nat * nat) :=
  match cs with
  | [] => []
  | c :: r =>
      let m1 := do_cmd fixed full n m c in
      (t_done (sim_totals fixed n m1), sim_closed fixed n m1) :: totals_cmds fixed full n m1 r
  end.
