(* Model/HeadLoops.v -- the `loop { .. continue .. break }` of trim_whitespace in src/head.rs
   transcribed literally (on fuel), to tie the structural [trim_ws] of Model/Head.v to the code.
   Definitions only; the equivalence is Proofs/HeadLoopsP.v. *)
From SV Require Import Base.Bytes Model.Headers Model.Head.

(* one iteration: first() blank => split_first, continue; else last() blank => split_last,
   continue; else break.  An empty slice has neither first() nor last(): break. *)
Fixpoint trim_ws_loop (fuel : nat) (l : bytes) : bytes :=
  match fuel with
  | O => l
  | S f =>
      match l with
      | [] => []
      | b :: _ =>
          if is_ws b then trim_ws_loop f (tl l)
          else if is_ws (last l 0) then trim_ws_loop f (removelast l)
          else l
      end
  end.
(* every `continue` shortens the slice, so length + 1 iterations suffice *)
Definition trim_whitespace (l : bytes) : bytes := trim_ws_loop (S (length l)) l.
