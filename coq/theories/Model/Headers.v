(* Model/Headers.v -- executable model of src/headers.rs (HeaderList) and the ASCII check of
   src/ascii_string.rs.  Definitions only; proofs are in Proofs/HeadersP.v. *)
From SV Require Import Base.Bytes.

Definition header := (bytes * bytes)%type.      (* (name, value) *)
Definition hlist := list header.

Definition matches (name : bytes) (h : header) : bool := eq_ic (fst h) name.

(* HeaderList::add -- Vec::push *)
Definition add (hs : hlist) (name value : bytes) : hlist := hs ++ [(name, value)].

(* HeaderList::get_only -- the for loop with its early return *)
Fixpoint get_only_loop (hs : hlist) (name : bytes) (value : option bytes) : option bytes :=
  match hs with
  | [] => value
  | h :: t =>
      if matches name h then
        match value with
        | Some _ => None
        | None => get_only_loop t name (Some (snd h))
        end
      else get_only_loop t name value
  end.
Definition get_only (hs : hlist) (name : bytes) : option bytes := get_only_loop hs name None.

(* HeaderList::get_all *)
Fixpoint get_all (hs : hlist) (name : bytes) : list bytes :=
  match hs with
  | [] => []
  | h :: t => if matches name h then snd h :: get_all t name else get_all t name
  end.

(* Vec::remove(n) and Vec::swap_remove(n), for n < len *)
Definition vec_remove {A} (v : list A) (n : nat) : list A := firstn n v ++ skipn (S n) v.
Definition vec_swap_remove {A} (v : list A) (n : nat) : list A :=
  match rev v with
  | [] => v
  | last :: _ =>
      if Nat.eqb (S n) (length v) then firstn n v
      else firstn n v ++ last :: firstn (length v - n - 2) (skipn (S n) v)
  end.

(* HeaderList::remove_all:
     while n < len { if v[n] matches { values.push(v.(swap_)remove(n).value) } else { n += 1 } }
   [swap] = true is Vec::swap_remove (the code before the repair of D11), false is Vec::remove.
   Every iteration either shrinks the vector or advances n, so fuel = 2*len+1 suffices; the
   entry point supplies it. *)
Fixpoint remove_all_loop (swap : bool) (name : bytes) (fuel : nat) (v : hlist) (n : nat)
         (values : list bytes) : hlist * list bytes :=
  match fuel with
  | O => (v, values)
  | S f =>
      match nth_error v n with
      | None => (v, values)
      | Some h =>
          if matches name h
          then remove_all_loop swap name f
                 (if swap then vec_swap_remove v n else vec_remove v n) n (values ++ [snd h])
          else remove_all_loop swap name f v (S n) values
      end
  end.
Definition remove_all_gen (swap : bool) (hs : hlist) (name : bytes) : hlist * list bytes :=
  remove_all_loop swap name (S (2 * length hs)) hs O [].
Definition remove_all := remove_all_gen false.
Definition remove_all_swap := remove_all_gen true.

(* HeaderList::remove_only *)
Definition remove_only (hs : hlist) (name : bytes) : hlist * option bytes :=
  let '(hs', values) := remove_all hs name in
  (hs', match values with [v] => Some v | _ => None end).

(* AsciiString::try_from on text given as Unicode scalar values: Ok iff every char is ASCII.
   The stored string is then the same scalars, one byte each. *)
Definition ascii_try_from (chars : list N) : option bytes :=
  if forallb is_ascii chars then Some chars else None.

(* ---- operation language used by the correspondence check and the invariant theorem ---- *)
Inductive hop :=
| OpAdd (name value : bytes)
| OpGetOnly (name : bytes)
| OpGetAll (name : bytes)
| OpRemoveOnly (name : bytes)
| OpRemoveAll (name : bytes).

Inductive hres :=
| RUnit
| ROpt (v : option bytes)
| RList (vs : list bytes).

Definition hstep (hs : hlist) (o : hop) : hlist * hres :=
  match o with
  | OpAdd n v => (add hs n v, RUnit)
  | OpGetOnly n => (hs, ROpt (get_only hs n))
  | OpGetAll n => (hs, RList (get_all hs n))
  | OpRemoveOnly n => let '(hs', r) := remove_only hs n in (hs', ROpt r)
  | OpRemoveAll n => let '(hs', r) := remove_all hs n in (hs', RList r)
  end.

(* ---- specification side: the ordered case-insensitive multimap, stated with filter ---- *)
Definition spec_values (hs : hlist) (name : bytes) : list bytes := map snd (filter (matches name) hs).
Definition spec_rest (hs : hlist) (name : bytes) : hlist := filter (fun h => negb (matches name h)) hs.

Definition spec_step (hs : hlist) (o : hop) : hlist * hres :=
  match o with
  | OpAdd n v => (hs ++ [(n, v)], RUnit)
  | OpGetOnly n => (hs, ROpt (match spec_values hs n with [v] => Some v | _ => None end))
  | OpGetAll n => (hs, RList (spec_values hs n))
  | OpRemoveOnly n => (spec_rest hs n, ROpt (match spec_values hs n with [v] => Some v | _ => None end))
  | OpRemoveAll n => (spec_rest hs n, RList (spec_values hs n))
  end.

(* boolean equality of observations, used by the oracle *)
Definition header_beq (a b : header) : bool := beq (fst a) (fst b) && beq (snd a) (snd b).
Definition hlist_beq : hlist -> hlist -> bool := list_beq header_beq.
Definition hres_beq (a b : hres) : bool :=
  match a, b with
  | RUnit, RUnit => true
  | ROpt x, ROpt y => option_beq beq x y
  | RList x, RList y => list_beq beq x y
  | _, _ => false
  end.

(* The oracle of C14: given the state the implementation was in, the operation, and what the
   implementation returned / became, decide whether that step obeys the multimap specification. *)
Definition oracle_c14_step (before : hlist) (o : hop) (after : hlist) (r : hres) : bool :=
  let '(after', r') := spec_step before o in
  hlist_beq after after' && hres_beq r r'.

Definition all_ascii (hs : hlist) : bool :=
  forallb (fun h => forallb is_ascii (fst h) && forallb is_ascii (snd h)) hs.
