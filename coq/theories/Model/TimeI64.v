(* Model/TimeI64.v -- the i64 arithmetic sites of src/time.rs made explicit.
   Every `+=`, `-=`, `+`, `-`, `*`, `/` that the anchored code performs on the i64 fields of
   DateTime (balance, balance_min, balance_hour, balance_day with its two loops, balance_month,
   DateTime::new, Add<Duration>) passes through [ck]: a result outside -2^63 .. 2^63-1 is the
   outcome [Overflow] (debug build: panic "attempt to add/subtract/multiply with overflow";
   release build: two's-complement wrap -- either way the unbounded model would no longer describe
   the code).  `%` in is_leap_year / month_len_days cannot overflow (the divisor is a positive
   literal) and the comparisons and assert!s compute nothing.
   Proofs/TimeI64P.v proves that on the stated domains no [ck] ever fires, i.e. these functions
   equal the unbounded ones of Model/Time.v.  Definitions only. *)
From Coq Require Import ZArith.
From SV Require Import Base.Bytes Spec.Civil Model.Time.
Open Scope Z_scope.

Definition i64_min : Z := -9223372036854775808.
Definition in_i64 (x : Z) : Prop := i64_min <= x <= i64_max.
Definition in_i64b (x : Z) : bool := (i64_min <=? x) && (x <=? i64_max).
(* an i64 operation whose mathematical result is x *)
Definition ck (x : Z) (k : Z -> outcome) : outcome := if in_i64b x then k x else Overflow.

(* fn balance_month: (self.month - 1) / 12; self.year += ..; self.month -= 12 * .. *)
Definition balance_month_chk (t : dt) : outcome :=
  if month t >? 12 then
    ck (month t - 1) (fun a =>
    ck (a / 12) (fun delta_years =>
    ck (year t + delta_years) (fun y' =>
    ck (12 * delta_years) (fun b =>
    ck (month t - b) (fun m' =>
      let t' := set_ym t y' m' in
      if (1 <=? month t') && (month t' <=? 12) then Ok t' else PanicAssert 4)))))
  else Ok t.

(* while self.day > 366 { self.day -= if self.month > 2 { year_len_days(self.year + 1) } else
   { year_len_days(self.year) }; self.year += 1; } *)
Fixpoint year_loop_chk (fuel : nat) (t : dt) : outcome :=
  if day t >? 366 then
    match fuel with
    | O => OutOfFuel
    | S f =>
        let step (sub : Z) : outcome :=
          ck (day t - sub) (fun d' => ck (year t + 1) (fun y' => year_loop_chk f (set_yd t y' d'))) in
        if month t >? 2 then ck (year t + 1) (fun y1 => step (year_len_days y1))
        else step (year_len_days (year t))
    end
  else Ok t.

(* while self.day > month_len_days(..) { self.day -= month_len_days(..); self.month += 1;
   self.balance_month(); } *)
Fixpoint month_loop_chk (fuel : nat) (t : dt) : outcome :=
  match month_len_days (year t) (month t) with
  | None => PanicUnimplemented
  | Some ml =>
      if day t >? ml then
        match fuel with
        | O => OutOfFuel
        | S f =>
            ck (day t - ml) (fun d' =>
            ck (month t + 1) (fun m' =>
              bind (balance_month_chk (set_md t m' d')) (month_loop_chk f)))
        end
      else Ok t
  end.

Definition balance_day_chk (fuel : nat) (t : dt) : outcome :=
  bind (balance_month_chk t) (fun t1 => bind (year_loop_chk fuel t1) (month_loop_chk fuel)).

(* fn balance_hour: self.hour / 24; self.day += ..; self.hour -= 24 * .. *)
Definition balance_hour_chk (fuel : nat) (t : dt) : outcome :=
  if hour t >? 23 then
    ck (hour t / 24) (fun delta_days =>
    ck (day t + delta_days) (fun d' =>
    ck (24 * delta_days) (fun b =>
    ck (hour t - b) (fun h' =>
      let t' := mkdt (year t) (month t) d' h' (minute t) (sec t) in
      if (0 <=? hour t') && (hour t' <? 24) then balance_day_chk fuel t' else PanicAssert 3))))
  else balance_day_chk fuel t.

(* fn balance_min *)
Definition balance_min_chk (fuel : nat) (t : dt) : outcome :=
  if minute t >? 59 then
    ck (minute t / 60) (fun delta_hours =>
    ck (hour t + delta_hours) (fun h' =>
    ck (60 * delta_hours) (fun b =>
    ck (minute t - b) (fun mi' =>
      let t' := mkdt (year t) (month t) (day t) h' mi' (sec t) in
      if (0 <=? minute t') && (minute t' <? 60) then balance_hour_chk fuel t' else PanicAssert 2))))
  else balance_hour_chk fuel t.

(* pub fn balance *)
Definition balance_chk (fuel : nat) (t : dt) : outcome :=
  if sec t >? 59 then
    ck (sec t / 60) (fun delta_mins =>
    ck (minute t + delta_mins) (fun mi' =>
    ck (60 * delta_mins) (fun b =>
    ck (sec t - b) (fun s' =>
      let t' := mkdt (year t) (month t) (day t) (hour t) mi' s' in
      if (0 <=? sec t') && (sec t' <? 60) then balance_min_chk fuel t' else PanicAssert 1))))
  else balance_min_chk fuel t.

(* DateTime::new(epoch_seconds: i64): the argument is an i64 by type *)
Definition new_chk (fuel : nat) (epoch_seconds : Z) : outcome :=
  if in_i64b epoch_seconds then balance_chk fuel (mkdt 1970 1 1 0 0 epoch_seconds) else Overflow.

(* impl Add<Duration>: self.sec += i64::try_from(rhs.as_secs()).unwrap() *)
Definition add_chk (fuel : nat) (t : dt) (secs : Z) : outcome :=
  if secs >? i64_max then PanicTryFrom
  else ck (sec t + secs) (fun s' =>
         balance_chk fuel (mkdt (year t) (month t) (day t) (hour t) (minute t) s')).

(* all six fields of a DateTime are i64 values *)
Definition dt_in_i64 (t : dt) : Prop :=
  in_i64 (year t) /\ in_i64 (month t) /\ in_i64 (day t) /\ in_i64 (hour t) /\ in_i64 (minute t) /\ in_i64 (sec t).
