(* Model/Tables.v -- types and evaluators for the finite tables of C20.  The tables themselves
   (Generated/StatusTables.v) are regenerated from /repo/src/response.rs, /repo/src/http_error.rs
   and /repo/src/http_conn.rs by props/c20.py on every run. Definitions only. *)
From SV Require Import Base.Bytes.

(* body expression of `Response::text(code, <expr>)` in `From<HttpError> for Response` *)
Inductive body_expr := BDescription | BLiteral (s : bytes).
Inductive resp_shape := RDrop | RText (code : N) (b : body_expr).
(* `description()` arm: a string literal, or format!("<prefix>{kind:?}: {s}") *)
Inductive desc_expr := DLiteral (s : bytes) | DFormat (prefix : bytes).

Record err_entry := {
  e_name : bytes;          (* variant name *)
  e_payload : bool;        (* variant carries (ErrorKind, String) *)
  e_server : bool;         (* value of is_server_error() *)
  e_desc : desc_expr;      (* description() *)
  e_resp : resp_shape      (* From<HttpError> for Response *)
}.

(* [kd] = Debug rendering of the ErrorKind, [tx] = the payload text *)
Definition describe (e : err_entry) (kd tx : bytes) : bytes :=
  match e_desc e with
  | DLiteral s => s
  | DFormat p => p ++ kd ++ [58; 32] ++ tx
  end.

(* None = drop the connection *)
Definition respond (e : err_entry) (kd tx : bytes) : option (N * bytes) :=
  match e_resp e with
  | RDrop => None
  | RText code BDescription => Some (code, describe e kd tx)
  | RText code (BLiteral s) => Some (code, s)
  end.

(* ---- specification side, written from the property statement ---- *)
Inductive eclass := ClientErr (code : N) | ServerErr | DropConn.

Definition str_HttpError : bytes := [72;116;116;112;69;114;114;111;114;58;58].   (* "HttpError::" *)

(* numeric value of the last three characters of a constructor name, if they are digits and are
   preceded by '_' *)
Definition suffix_code (name : bytes) : option N :=
  match rev name with
  | c :: b :: a :: 95 :: _ =>
      if is_digit a && is_digit b && is_digit c
      then Some (100 * (a - 48) + 10 * (b - 48) + (c - 48)) else None
  | _ => None
  end.

Fixpoint occurs (needle hay : bytes) : bool :=
  starts_with needle hay || match hay with [] => false | _ :: t => occurs needle t end.

Fixpoint lookup_err (tbl : list err_entry) (name : bytes) : option err_entry :=
  match tbl with
  | [] => None
  | e :: t => if beq (e_name e) name then Some e else lookup_err t name
  end.

Fixpoint lookup_class (tbl : list (bytes * eclass)) (name : bytes) : option eclass :=
  match tbl with
  | [] => None
  | (n, c) :: t => if beq n name then Some c else lookup_class t name
  end.

Definition in_close_range (lo hi code : N) : bool := (lo <=? code) && (code <=? hi).

(* ---- oracles evaluated on the implementation's observations ---- *)
Definition oracle_ctor (name : bytes) (code : N) (normal : bool) : bool :=
  normal && option_beq N.eqb (suffix_code name) (Some code).

(* obs: None = drop; Some (code, body). [kd], [tx]: the payload given to the implementation. *)
Definition payload_hidden (kd tx body : bytes) : bool :=
  negb ((3 <? N.of_nat (length tx)) && occurs tx body) &&
  negb ((3 <? N.of_nat (length kd)) && occurs kd body).

Definition oracle_err (cls : eclass) (name kd tx : bytes) (obs : option (N * bytes)) : bool :=
  match cls, obs with
  | DropConn, None => true
  | ClientErr code, Some (c, body) =>
      (c =? code) && payload_hidden kd tx body &&
      (beq body (str_HttpError ++ name) || (code =? 413))
  | ServerErr, Some (c, body) => (c =? 500) && payload_hidden kd tx body
  | _, _ => false
  end.

(* a response with status [code] was written through the connection: [has_close] = the head carried
   `connection: close`, [shut] = the write side was shut down afterwards *)
Definition oracle_close (code : N) (has_close shut : bool) : bool :=
  if in_range 500 599 code then has_close && shut else true.
