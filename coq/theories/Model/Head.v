(* Model/Head.v -- executable model of src/head.rs (Head::try_read, parse_request_line,
   parse_header_line, read_http_head), of the head phase of read_http_request (src/request.rs:
   buf.shift() + read_http_head) and of the two error conversions of src/http_error.rs that the
   head phase uses.  Definitions only; proofs are in Proofs/HeadP.v, Proofs/HeadReadP.v,
   Proofs/HeadGrammarP.v.

   =====================  PUBLIC INTERFACE (stable; Model/Request.v relies on it)  ==============
   url_parse : bytes -> option (bytes * option bytes)
       the external `url` crate (Url::options().base_url("http://unknown/").parse(target)),
       a Section variable here, hence the FIRST explicit argument of everything below once the
       section is closed.  Some (path, query) = (url.path(), url.query()); None = parse error or
       target not UTF-8.
   head_error  = HE_Truncated | HE_MissingRequestLine | HE_MalformedRequestLine | HE_MalformedPath
               | HE_UnsupportedProtocol | HE_MalformedHeader           (enum HeadError)
   http_error  = E_Disconnected | E_HeadTooLong | E_MalformedHeaderLine | E_MalformedPath
               | E_MalformedRequestLine | E_MissingRequestLine | E_Truncated | E_UnsupportedProtocol
               | E_InvalidContentLength | E_MalformedCookieHeader | E_UnsupportedTransferEncoding
                 (the HttpError variants that reading a request can produce; the last three are
                  produced only by the header post-processing of read_http_request = Model/Request.v)
   res A       = Ok a | Err (e : head_error) | Panic
   head        = record mk_head { h_method : bytes; h_target : bytes (raw request-target);
                                  h_path : bytes; h_query : option bytes;
                                  h_headers : hlist (= list (bytes * bytes), Model/Headers.v) }
   fbuf        = record mk_fbuf { fb_rd : nat (read_index); fb_data : bytes (readable()) }
                 FixedBuf<cap>; write_index = fb_rd + length fb_data; [cap : nat] is an argument.
     fb_wf cap b, fb_writable cap b, fb_shift b, fb_try_read_exact b n, fb_wrote cap b bs
   parse_head url_parse head_bytes : res head        (the bytes before CRLFCRLF -> parsed head)
   try_read url_parse b : res head * fbuf            (Head::try_read; current code)
   try_read_gen fix1 fix2 url_parse b                (fix1/fix2 = repair of D1/D2 present)
   try_read_prefix url_parse b                       (= try_read_gen false false: pinned tree)
   instream (Base/IO.v)  = mk_in { in_bytes; in_sched; in_err }
   outcome     = ROk h b s | RErr e b s | RPanic | ROutOfFuel     (b : fbuf, s : instream afterwards)
   read_head url_parse cap fuel b s : outcome        (read_http_head; fuel >= cap + 2 suffices)
   read_request_head url_parse cap fuel b s          (buf.shift(); read_http_head(buf, reader))
   of_head_error : head_error -> http_error          (From<HeadError> for HttpError)
   status_of : http_error -> reply                   (From<HttpError> for Response: Status code | Drop)
   ============================================================================================ *)
From SV Require Import Base.Bytes Base.IO Model.Headers.

Inductive head_error :=
| HE_Truncated | HE_MissingRequestLine | HE_MalformedRequestLine | HE_MalformedPath
| HE_UnsupportedProtocol | HE_MalformedHeader.

Inductive http_error :=
| E_Disconnected | E_HeadTooLong | E_MalformedHeaderLine | E_MalformedPath | E_MalformedRequestLine
| E_MissingRequestLine | E_Truncated | E_UnsupportedProtocol
| E_InvalidContentLength | E_MalformedCookieHeader | E_UnsupportedTransferEncoding.

Inductive res (A : Type) := Ok (a : A) | Err (e : head_error) | Panic.
Arguments Ok {A} a.
Arguments Err {A} e.
Arguments Panic {A}.

Record head := mk_head {
  h_method : bytes; h_target : bytes; h_path : bytes; h_query : option bytes; h_headers : hlist }.

(* From<HeadError> for HttpError *)
Definition of_head_error (e : head_error) : http_error :=
  match e with
  | HE_Truncated => E_Truncated
  | HE_MissingRequestLine => E_MissingRequestLine
  | HE_MalformedRequestLine => E_MalformedRequestLine
  | HE_MalformedPath => E_MalformedPath
  | HE_UnsupportedProtocol => E_UnsupportedProtocol
  | HE_MalformedHeader => E_MalformedHeaderLine
  end.

(* From<HttpError> for Response, restricted to the variants above *)
Inductive reply := Status (code : N) | Drop.
Definition status_of (e : http_error) : reply :=
  match e with
  | E_InvalidContentLength | E_MalformedCookieHeader | E_MalformedHeaderLine | E_MalformedPath
  | E_MalformedRequestLine | E_MissingRequestLine | E_Truncated | E_UnsupportedTransferEncoding => Status 400
  | E_Disconnected => Drop
  | E_HeadTooLong => Status 431
  | E_UnsupportedProtocol => Status 505
  end.

(* ------------------------------------------------------------------ FixedBuf<cap> *)
Record fbuf := mk_fbuf { fb_rd : nat; fb_data : bytes }.
Definition fb_wf (cap : nat) (b : fbuf) : Prop := (fb_rd b + length (fb_data b) <= cap)%nat.
Definition fb_wfb (cap : nat) (b : fbuf) : bool := (fb_rd b + length (fb_data b) <=? cap)%nat.
(* writable().len() = cap - write_index *)
Definition fb_writable (cap : nat) (b : fbuf) : nat := (cap - (fb_rd b + length (fb_data b)))%nat.
(* shift(): move the readable bytes to the front *)
Definition fb_shift (b : fbuf) : fbuf := mk_fbuf 0 (fb_data b).
(* try_read_exact(n): None when fewer than n bytes are readable; resets both indices when the
   buffer becomes empty *)
Definition fb_try_read_exact (b : fbuf) (n : nat) : option (bytes * fbuf) :=
  if (length (fb_data b) <? n)%nat then None
  else Some (firstn n (fb_data b),
             if (n =? length (fb_data b))%nat then mk_fbuf 0 []
             else mk_fbuf (fb_rd b + n) (skipn n (fb_data b))).
(* the reader filled the front of writable() with [bs]; wrote(len bs) asserts that it fits *)
Definition fb_wrote (cap : nat) (b : fbuf) (bs : bytes) : option fbuf :=
  if (length bs <=? fb_writable cap b)%nat then Some (mk_fbuf (fb_rd b) (fb_data b ++ bs)) else None.

(* ------------------------------------------------------------------ line utilities *)
Definition crlf2 : bytes := [13; 10; 13; 10].
Definition http11 : bytes := [72; 84; 84; 80; 47; 49; 46; 49].        (* "HTTP/1.1" *)

(* slice::split(|b| b == c): always at least one piece *)
Fixpoint split_on (c : N) (l : bytes) : list bytes :=
  match l with
  | [] => [[]]
  | b :: t =>
      if b =? c then [] :: split_on c t
      else match split_on c t with
           | x :: r => (b :: x) :: r
           | [] => [[b]]
           end
  end.

(* trim_trailing_cr *)
Fixpoint trim_trailing_cr (l : bytes) : bytes :=
  match l with
  | [] => []
  | [b] => if b =? 13 then [] else [b]
  | b :: t => b :: trim_trailing_cr t
  end.

(* trim_whitespace: strips SP, HTAB, CR, LF from both ends.  The Rust loop removes leading
   bytes while the first byte is blank, then trailing bytes while the last is blank (once the
   first byte is non-blank it stays the first byte); its guarded split_first/split_last unwraps
   cannot fail. *)
Definition is_ws (b : N) : bool := (b =? 32) || (b =? 9) || (b =? 13) || (b =? 10).
Fixpoint drop_while (p : N -> bool) (l : bytes) : bytes :=
  match l with
  | [] => []
  | b :: t => if p b then drop_while p t else l
  end.
Fixpoint drop_while_end (p : N -> bool) (l : bytes) : bytes :=
  match l with
  | [] => []
  | b :: t => match drop_while_end p t with
              | [] => if p b then [] else [b]
              | r => b :: r
              end
  end.
Definition trim_ws (l : bytes) : bytes := drop_while_end is_ws (drop_while is_ws l).

(* the bytes before and after the first occurrence of c *)
Fixpoint cut_at (c : N) (l : bytes) : option (bytes * bytes) :=
  match l with
  | [] => None
  | b :: t =>
      if b =? c then Some ([], t)
      else match cut_at c t with
           | Some (x, y) => Some (b :: x, y)
           | None => None
           end
  end.

(* ------------------------------------------------------------------ the two regex recognisers
   first regex literal of src/head.rs:  (TCHAR+) SP ([^ \t\r\n]+) SP ([^ \t\r\n]+), full match
   (TCHAR = [-!#$%&'*+.^_`|~0-9A-Za-z]; props/c02.py pins the literal text).
   The method class excludes SP, so group 1 ends at the first SP; group 2 excludes SP, so it ends
   at the next SP; group 3 is the remainder and must not contain a blank.
   (Proofs/HeadGrammarP.v: match_request_line agrees with the declarative reading
    line = m ++ SP ++ t ++ SP ++ v of Spec/Rfc7230.v.) *)
Definition is_nonblank (b : N) : bool := negb (is_ws b).
Definition nonblank_run (s : bytes) : bool :=
  match s with [] => false | _ => forallb is_nonblank s end.
Definition match_request_line (line : bytes) : option (bytes * bytes * bytes) :=
  match cut_at 32 line with
  | None => None
  | Some (m, r) =>
      match cut_at 32 r with
      | None => None
      | Some (t, v) => if is_token m && nonblank_run t && nonblank_run v then Some (m, t, v) else None
      end
  end.

(* second regex literal of src/head.rs:  (TCHAR+) ':' [ \t]* ( . * ) [ \t]*, full match.
   The name class excludes ':', so group 1 is everything before the first ':'.  Group 2 under
   greedy matching is the remainder without its leading SP/HTAB; whichever split of the
   surrounding [ \t]* the matcher chooses, trim_whitespace of group 2 is the same
   (Proofs/HeadP.v: trim_ws_absorbs_ows). *)
Definition match_header_line (line : bytes) : option (bytes * bytes) :=
  match cut_at 58 line with
  | None => None
  | Some (name, rest) => if is_token name then Some (name, drop_while is_ows rest) else None
  end.

Section WithUrl.
Variable url_parse : bytes -> option (bytes * option bytes).
(* fix1: the repair of D1 is present (value that is not ASCII => MalformedHeader instead of unwrap)
   fix2: the repair of D2 is present (value bytes must be HTAB / SP / VCHAR) *)
Variables fix1 fix2 : bool.

(* Head::parse_request_line.  `from_utf8(method_bytes).unwrap()` panics only on invalid UTF-8; the
   model panics on the larger set "some byte >= 128", which is proved unreachable.  The target's
   UTF-8 check, the '/' test and the crate's parse all map to MalformedPath; the UTF-8 check is
   part of [url_parse]'s domain (None). *)
Definition parse_request_line (line : bytes) : res (bytes * bytes * bytes * option bytes) :=
  match match_request_line line with
  | None => Err HE_MalformedRequestLine
  | Some (m, t, v) =>
      if negb (forallb is_ascii m) then Panic
      else if negb (starts_with [47] t) then Err HE_MalformedPath
      else match url_parse t with
           | None => Err HE_MalformedPath
           | Some (p, q) => if beq v http11 then Ok (m, t, p, q) else Err HE_UnsupportedProtocol
           end
  end.

(* Head::parse_header_line.  String::from_utf8(name).unwrap() and AsciiString::try_from(name)
   .unwrap() are the first Panic; AsciiString::try_from(value) is the last test. *)
Definition parse_header_line (line : bytes) : res header :=
  match match_header_line line with
  | None => Err HE_MalformedHeader
  | Some (name, g) =>
      if negb (forallb is_ascii name) then Panic
      else
        let value := trim_ws g in
        if fix2 && negb (forallb is_fv_byte value) then Err HE_MalformedHeader
        else if forallb is_ascii value then Ok (name, value)
        else if fix1 then Err HE_MalformedHeader else Panic
  end.

Fixpoint parse_header_lines (lines : list bytes) : res hlist :=
  match lines with
  | [] => Ok []
  | l :: t =>
      match parse_header_line l with
      | Ok h => match parse_header_lines t with
                | Ok hs => Ok (h :: hs)
                | Err e => Err e
                | Panic => Panic
                end
      | Err e => Err e
      | Panic => Panic
      end
  end.

(* the part of Head::try_read after read_head_bytes *)
Definition parse_head_gen (head_bytes : bytes) : res head :=
  match map trim_trailing_cr (split_on 10 head_bytes) with
  | [] => Err HE_MissingRequestLine
  | rl :: lines =>
      match parse_request_line rl with
      | Ok (m, t, p, q) =>
          match parse_header_lines lines with
          | Ok hs => Ok (mk_head m t p q hs)
          | Err e => Err e
          | Panic => Panic
          end
      | Err e => Err e
      | Panic => Panic
      end
  end.

(* Head::try_read: find CRLFCRLF, consume head_len + 4 bytes (unwrap of try_read_exact), parse *)
Definition try_read_gen (b : fbuf) : res head * fbuf :=
  match find_slice crlf2 (fb_data b) with
  | None => (Err HE_Truncated, b)
  | Some n =>
      match fb_try_read_exact b (n + 4) with
      | None => (Panic, b)
      | Some (hb, b') => (parse_head_gen (firstn n hb), b')
      end
  end.
End WithUrl.

Definition parse_head url_parse := parse_head_gen url_parse true true.
Definition try_read url_parse := try_read_gen url_parse true true.
Definition parse_head_prefix url_parse := parse_head_gen url_parse false false.
Definition try_read_prefix url_parse := try_read_gen url_parse false false.

(* ------------------------------------------------------------------ read_http_head *)
Inductive outcome :=
| ROk (h : head) (b : fbuf) (s : instream)
| RErr (e : http_error) (b : fbuf) (s : instream)
| RPanic
| ROutOfFuel.

Section ReadLoop.
Variable url_parse : bytes -> option (bytes * option bytes).
Variables fix1 fix2 : bool.
Variable cap : nat.

Fixpoint read_head_gen (fuel : nat) (b : fbuf) (s : instream) : outcome :=
  match try_read_gen url_parse fix1 fix2 b with
  | (Ok h, b') => ROk h b' s
  | (Panic, _) => RPanic
  | (Err HE_Truncated, b') =>
      if (fb_writable cap b' =? 0)%nat then RErr E_HeadTooLong b' s
      else match fuel with
           | O => ROutOfFuel
           | S f =>
               let '(got, s') := next_read (fb_writable cap b') s in
               match got with
               | [] => match fb_data b' with
                       | [] => RErr E_Disconnected b' s'
                       | _ => RErr E_Truncated b' s'
                       end
               | _ => match fb_wrote cap b' got with
                      | Some b'' => read_head_gen f b'' s'
                      | None => RPanic
                      end
               end
           end
  | (Err e, b') => RErr (of_head_error e) b' s
  end.

(* the head phase of read_http_request *)
Definition read_request_head_gen (fuel : nat) (b : fbuf) (s : instream) : outcome :=
  read_head_gen fuel (fb_shift b) s.

(* [n] consecutive requests read from the same buffer and reader (pipelining), stopping at the
   first outcome that is not ROk.  [shift] = true: through read_http_request's head phase. *)
Fixpoint read_seq_gen (shift : bool) (n : nat) (fuel : nat) (b : fbuf) (s : instream) : list outcome :=
  match n with
  | O => []
  | S n' =>
      let o := read_head_gen fuel (if shift then fb_shift b else b) s in
      o :: match o with
           | ROk _ b' s' => read_seq_gen shift n' fuel b' s'
           | _ => []
           end
  end.
End ReadLoop.

Definition read_head url_parse := read_head_gen url_parse true true.
Definition read_request_head url_parse := read_request_head_gen url_parse true true.
Definition read_head_prefix url_parse := read_head_gen url_parse false false.

(* ------------------------------------------------------------------ schedule-free specification
   What the loop must compute, as a function of the bytes only: [all] = readable ++ stream, the
   window is what still fits behind read_index. *)
Inductive verdict :=
| VOk (h : head) (rest : bytes)
| VErr (e : http_error) (rest : bytes)
| VPanic.

Definition head_spec_gen url_parse (fix1 fix2 : bool) (cap : nat) (b : fbuf) (stream : bytes) : verdict :=
  let all := fb_data b ++ stream in
  let window := (cap - fb_rd b)%nat in
  match find_slice crlf2 (firstn window all) with
  | Some n =>
      match parse_head_gen url_parse fix1 fix2 (firstn n all) with
      | Ok h => VOk h (skipn (n + 4) all)
      | Err e => VErr (of_head_error e) (skipn (n + 4) all)
      | Panic => VPanic
      end
  | None =>
      if (window <=? length all)%nat then VErr E_HeadTooLong all
      else match all with
           | [] => VErr E_Disconnected []
           | _ => VErr E_Truncated all
           end
  end.
Definition head_spec url_parse := head_spec_gen url_parse true true.

Definition abstract (o : outcome) : option verdict :=
  match o with
  | ROk h b s => Some (VOk h (fb_data b ++ in_bytes s))
  | RErr e b s => Some (VErr e (fb_data b ++ in_bytes s))
  | RPanic => Some VPanic
  | ROutOfFuel => None
  end.

(* the heads of a whole pipelined connection, read through read_http_request (shift first), as
   a function of the concatenated bytes only: stop at the first verdict that is not a request *)
Fixpoint seq_spec_gen url_parse (fix1 fix2 : bool) (cap : nat) (n : nat) (all : bytes) : list verdict :=
  match n with
  | O => []
  | S n' =>
      let v := head_spec_gen url_parse fix1 fix2 cap (mk_fbuf 0 []) all in
      v :: match v with
           | VOk _ rest => seq_spec_gen url_parse fix1 fix2 cap n' rest
           | _ => []
           end
  end.
Definition seq_spec url_parse := seq_spec_gen url_parse true true.
Definition read_seq url_parse cap := read_seq_gen url_parse true true cap true.

(* ------------------------------------------------------------------ boolean equalities + oracle *)
Definition head_error_beq (a b : head_error) : bool :=
  match a, b with
  | HE_Truncated, HE_Truncated | HE_MissingRequestLine, HE_MissingRequestLine
  | HE_MalformedRequestLine, HE_MalformedRequestLine | HE_MalformedPath, HE_MalformedPath
  | HE_UnsupportedProtocol, HE_UnsupportedProtocol | HE_MalformedHeader, HE_MalformedHeader => true
  | _, _ => false
  end.
Definition http_error_beq (a b : http_error) : bool :=
  match a, b with
  | E_Disconnected, E_Disconnected | E_HeadTooLong, E_HeadTooLong
  | E_MalformedHeaderLine, E_MalformedHeaderLine | E_MalformedPath, E_MalformedPath
  | E_MalformedRequestLine, E_MalformedRequestLine | E_MissingRequestLine, E_MissingRequestLine
  | E_Truncated, E_Truncated | E_UnsupportedProtocol, E_UnsupportedProtocol
  | E_InvalidContentLength, E_InvalidContentLength | E_MalformedCookieHeader, E_MalformedCookieHeader
  | E_UnsupportedTransferEncoding, E_UnsupportedTransferEncoding => true
  | _, _ => false
  end.
Definition head_beq (a b : head) : bool :=
  beq (h_method a) (h_method b) && beq (h_target a) (h_target b) && beq (h_path a) (h_path b) &&
  option_beq beq (h_query a) (h_query b) && hlist_beq (h_headers a) (h_headers b).
Definition verdict_beq (a b : verdict) : bool :=
  match a, b with
  | VOk h r, VOk h' r' => head_beq h h' && beq r r'
  | VErr e r, VErr e' r' => http_error_beq e e' && beq r r'
  | VPanic, VPanic => true
  | _, _ => false
  end.

(* the documented outcomes of reading a head (C01): a request or one of these errors *)
Definition documented_head_error (e : http_error) : bool :=
  match e with
  | E_MalformedRequestLine | E_MalformedPath | E_UnsupportedProtocol | E_MalformedHeaderLine
  | E_HeadTooLong | E_Truncated | E_Disconnected => true
  | _ => false
  end.
Definition verdict_documented (v : verdict) : bool :=
  match v with
  | VOk _ _ => true
  | VErr e _ => documented_head_error e
  | VPanic => false
  end.

(* What the implementation lets us observe of a head: everything but the raw target (the Url
   exposes path and query).  [cmp_head] = false: the surface observed only "a request was read"
   (read_http_request, whose Request is post-processed), so heads are not compared. *)
Definition head_obs_beq (a b : head) : bool :=
  beq (h_method a) (h_method b) && beq (h_path a) (h_path b) &&
  option_beq beq (h_query a) (h_query b) && hlist_beq (h_headers a) (h_headers b).
Definition verdict_obs_beq (cmp_head : bool) (a b : verdict) : bool :=
  match a, b with
  | VOk h r, VOk h' r' => (negb cmp_head || head_obs_beq h h') && beq r r'
  | VErr e r, VErr e' r' => http_error_beq e e' && beq r r'
  | VPanic, VPanic => true
  | _, _ => false
  end.

(* Oracle of C01, evaluated on an observed outcome (of the implementation, or of the model):
   the outcome is a request or a documented error -- not a panic, not a hang --, and it is the
   one the schedule-free specification prescribes for these bytes, with exactly the bytes after
   the head left over (in the buffer or unread). *)
Definition oracle_c01 url_parse (cmp_head : bool) (cap : nat) (b : fbuf) (stream : bytes) (obs : option verdict) : bool :=
  match obs with
  | None => false
  | Some v => verdict_documented v && verdict_obs_beq cmp_head v (head_spec url_parse cap b stream)
  end.

Definition oracle_c01_seq url_parse (cmp_head : bool) (cap n : nat) (all : bytes) (obs : list (option verdict)) : bool :=
  list_beq (option_beq (verdict_obs_beq cmp_head)) obs (map Some (seq_spec url_parse cap n all)) &&
  forallb (fun o => match o with Some v => verdict_documented v | None => false end) obs.

(* Oracle for a single Head::try_read call on a buffer (no reader): Truncated exactly when the
   readable bytes hold no CRLFCRLF (and then nothing is consumed); otherwise the verdict of the
   specification for these bytes alone. *)
Definition oracle_c01_try url_parse (cap : nat) (b : fbuf) (r : res head) (left : bytes) : bool :=
  match r with
  | Panic => false
  | Err HE_Truncated =>
      match find_slice crlf2 (fb_data b) with None => beq left (fb_data b) | Some _ => false end
  | Err e => verdict_obs_beq true (VErr (of_head_error e) left) (head_spec url_parse cap b [])
  | Ok h => verdict_obs_beq true (VOk h left) (head_spec url_parse cap b [])
  end.
