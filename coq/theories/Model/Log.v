(* Model/Log.v -- executable model of the logging front end:
     log(), global_logger(), set_global_logger(), ClearGlobalLoggerOnDrop, GLOBAL_LOGGER,
     THREAD_LOCAL_TAGS add / clear / with                                   (src/log/logger.rs)
     error() / info() / debug(), log_response(), log_request_and_response() (src/log/mod.rs)
   as a labelled transition system: one action = one call of one thread; the global logger is
   touched inside ONE mutex-protected section per call (global_logger().send(..) holds the lock
   across the send), so a call is atomic with respect to the logger state; thread-local tags are
   private to their thread.  Definitions only; proofs are in Proofs/LogP.v. *)
From SV Require Import Base.Bytes Spec.Json8259 Model.Json.
From Coq Require Import ZArith.

(* ---------------------------------------------------------------- names *)
Definition k_msg : text := [109; 115; 103].
Definition k_http_method : text := [104; 116; 116; 112; 95; 109; 101; 116; 104; 111; 100].
Definition k_path : text := [112; 97; 116; 104].
Definition k_request_body_len : text :=
  [114; 101; 113; 117; 101; 115; 116; 95; 98; 111; 100; 121; 95; 108; 101; 110].
Definition k_request_body : text := [114; 101; 113; 117; 101; 115; 116; 95; 98; 111; 100; 121].
Definition k_response_body_len : text :=
  [114; 101; 115; 112; 111; 110; 115; 101; 95; 98; 111; 100; 121; 95; 108; 101; 110].
Definition k_code : text := [99; 111; 100; 101].
Definition k_request_id : text := [114; 101; 113; 117; 101; 115; 116; 95; 105; 100].
Definition k_duration_ms : text := [100; 117; 114; 97; 116; 105; 111; 110; 95; 109; 115].
Definition t_pending : text := [112; 101; 110; 100; 105; 110; 103].

(* ---------------------------------------------------------------- the priority table of log() *)
Definition prio (name : text) : N :=
  if beq name k_msg then 0
  else if beq name k_http_method then 1
  else if beq name k_path then 2
  else if beq name k_request_body_len then 3
  else if beq name k_request_body then 4
  else if beq name k_response_body_len then 5
  else 99.
Definition prio_keys : list N := [0; 1; 2; 3; 4; 5; 99].

(* Vec::sort_by_key is a stable sort; a stable sort by a key is unique, here: insertion sort that
   puts an element before the first element with a key that is not smaller. *)
Section StableSort.
  Context {A : Type} (key : A -> N).
  Fixpoint insert_by (x : A) (l : list A) : list A :=
    match l with
    | [] => [x]
    | h :: r => if key h <? key x then h :: insert_by x r else x :: h :: r
    end.
  Fixpoint stable_sort (l : list A) : list A :=
    match l with
    | [] => []
    | x :: r => insert_by x (stable_sort r)
    end.
  (* specification side: the elements with key v, in the order given *)
  Definition bucket (v : N) (l : list A) : list A := filter (fun x => key x =? v) l.
  Definition buckets (ks : list N) (l : list A) : list A := flat_map (fun v => bucket v l) ks.
End StableSort.

Definition tag_key (tg : tag) : N := prio (fst tg).
Definition sort_tags (l : list tag) : list tag := stable_sort tag_key l.
(* msg, http_method, path, request_body_len, request_body, response_body_len first, in that fixed
   order; then all other tags in the order given *)
Definition spec_order (l : list tag) : list tag := buckets tag_key prio_keys l.

(* ---------------------------------------------------------------- data of the wrapper functions *)
Record response := { r_code : N; r_body_len : option N; r_id : N }.   (* r_id: identity marker *)
Definition bare_500 : response := {| r_code := 500; r_body_len := Some 0; r_id := 0 |}.
Inductive handler_result :=
| HOk (r : response)
| HErr (msg : option text) (backtrace : option text) (etags : list tag) (r : option response).
Record request := { q_method : text; q_path : text; q_id : N; q_body_len : option N }.

Definition n_value (n : N) : tag_value := VInt (Z.of_N n).

(* add_thread_local_log_tags_from_request *)
Definition request_tags (q : request) : list tag :=
  [(k_http_method, VStr (q_method q)); (k_path, VStr (q_path q)); (k_request_id, n_value (q_id q))] ++
  match q_body_len q with
  | Some len => [(k_request_body_len, n_value len)]
  | None => [(k_request_body, VStr t_pending)]
  end.

(* log_response: the response returned, the level and the call tags *)
Definition response_of (hr : handler_result) : response :=
  match hr with
  | HOk r => r
  | HErr _ _ _ (Some r) => r
  | HErr _ _ _ None => bare_500
  end.
Definition level_of (hr : handler_result) : level :=
  match hr with HOk _ => LInfo | HErr _ _ _ _ => LError end.
Definition code_tags (r : response) : list tag :=
  (k_code, n_value (r_code r)) ::
  match r_body_len r with Some len => [(k_response_body_len, n_value len)] | None => [] end.
Definition opt_msg (m : option text) : list tag :=
  match m with Some s => [(k_msg, VStr s)] | None => [] end.
Definition response_call_tags (hr : handler_result) : list tag :=
  match hr with
  | HOk r => code_tags r
  | HErr msg bt etags _ => etags ++ opt_msg msg ++ opt_msg bt ++ code_tags (response_of hr)
  end.

(* ---------------------------------------------------------------- state *)
Inductive logger_state := GNone | GSome (id : N) | GDefault.
Inductive dest := DLogger (id : N) | DDefault.

Record state := {
  glob : logger_state;                 (* GLOBAL_LOGGER *)
  guards : nat;                        (* live ClearGlobalLoggerOnDrop values *)
  gone : list N;                       (* channel ids whose receiver has been dropped *)
  ttags : list (N * list tag)          (* THREAD_LOCAL_TAGS, per thread; absent = empty *)
}.
Definition init_state : state := {| glob := GNone; guards := 0; gone := []; ttags := [] |}.

Fixpoint get_tags_in (m : list (N * list tag)) (t : N) : list tag :=
  match m with
  | [] => []
  | (t', l) :: r => if t' =? t then l else get_tags_in r t
  end.
Definition get_tags (st : state) (t : N) : list tag := get_tags_in (ttags st) t.
Definition set_tags (st : state) (t : N) (l : list tag) : state :=
  {| glob := glob st; guards := guards st; gone := gone st; ttags := (t, l) :: ttags st |}.
Definition set_glob (st : state) (g : logger_state) (gd : nat) : state :=
  {| glob := g; guards := gd; gone := gone st; ttags := ttags st |}.
Definition mem_N (x : N) (l : list N) : bool := existsb (N.eqb x) l.

(* ---------------------------------------------------------------- actions and observations *)
Inductive act :=
| AAddTag (tg : tag)                                   (* add_thread_local_log_tag *)
| AClear                                               (* clear_thread_local_log_tags *)
| ALog (lvl : level) (msg : text) (tags : list tag)    (* error / info / debug (msg, tags) *)
| ALogRaw (lvl : level) (tags : list tag)              (* internal::log(time, level, tags) *)
| ALogResponse (hr : handler_result)                   (* log_response(result) *)
| AWrapBegin (q : request)                             (* log_request_and_response: up to the call of f *)
| AWrapEnd (dur : N) (hr : handler_result)             (* ... from the return of f *)
| AWrapped (q : request) (dur : N) (hr : handler_result)   (* the whole call, f does no logging *)
| AInstall (id : N)                                    (* set_global_logger(sender of channel id) *)
| ADropGuard                                           (* drop of a ClearGlobalLoggerOnDrop *)
| AReceiverGone (id : N).                              (* the receiver of channel id is dropped *)

Inductive res :=
| RUnit                 (* () *)
| ROk                   (* Ok(()) *)
| RStopped              (* Err(LoggerStoppedError) *)
| RResp (r : response)  (* Ok(response) *)
| RInstalled            (* Ok(guard) *)
| RRefused              (* Err(GlobalLoggerAlreadySetError) *)
| RDropped
| RNoGuard              (* there is no guard to drop: nothing happens *)
| RPanic.               (* assert!(guard.is_some()) failed in drop *)
Definition event := (dest * level * list tag)%type.
Definition obs := (res * list event)%type.       (* what the caller gets, what the loggers receive *)

(* log(): extend with the thread's tags, stable sort, send on the logger installed now *)
Definition do_log (sorter : list tag -> list tag) (st : state) (t : N) (lvl : level)
           (call_tags : list tag) (ok : res) : state * obs :=
  let tags := sorter (call_tags ++ get_tags st t) in
  match glob st with
  | GNone => (set_glob st GDefault (guards st), (ok, [(DDefault, lvl, tags)]))
  | GDefault => (st, (ok, [(DDefault, lvl, tags)]))
  | GSome id => if mem_N id (gone st) then (st, (RStopped, []))
                else (st, (ok, [(DLogger id, lvl, tags)]))
  end.

Definition step_gen (sorter : list tag -> list tag) (st : state) (ta : N * act) : state * obs :=
  let (t, a) := ta in
  match a with
  | AAddTag tg => (set_tags st t (get_tags st t ++ [tg]), (RUnit, []))
  | AClear => (set_tags st t [], (RUnit, []))
  | ALog lvl msg tags => do_log sorter st t lvl ((k_msg, VStr msg) :: tags) ROk
  | ALogRaw lvl tags => do_log sorter st t lvl tags ROk
  | ALogResponse hr => do_log sorter st t (level_of hr) (response_call_tags hr) (RResp (response_of hr))
  | AWrapBegin q => (set_tags st t (request_tags q), (RUnit, []))
  | AWrapEnd dur hr =>
      let st1 := set_tags st t (get_tags st t ++ [(k_duration_ms, n_value dur)]) in
      do_log sorter st1 t (level_of hr) (response_call_tags hr) (RResp (response_of hr))
  | AWrapped q dur hr =>
      let st1 := set_tags st t (request_tags q ++ [(k_duration_ms, n_value dur)]) in
      do_log sorter st1 t (level_of hr) (response_call_tags hr) (RResp (response_of hr))
  | AInstall id =>
      match glob st with
      | GSome _ => (st, (RRefused, []))
      | _ => (set_glob st (GSome id) (S (guards st)), (RInstalled, []))
      end
  | ADropGuard =>
      match guards st with
      | O => (st, (RNoGuard, []))
      | S g =>
          match glob st with
          | GSome _ => (set_glob st GNone g, (RDropped, []))
          | other => (set_glob st other g, (RPanic, []))
          end
      end
  | AReceiverGone id =>
      ({| glob := glob st; guards := guards st; gone := id :: gone st; ttags := ttags st |}, (RUnit, []))
  end.

(* the model (the code: stable sort_by_key) and the specification (the fixed order of the property) *)
Definition step : state -> N * act -> state * obs := step_gen sort_tags.
Definition spec_step : state -> N * act -> state * obs := step_gen spec_order.

Fixpoint run_gen (stp : state -> N * act -> state * obs) (st : state) (acts : list (N * act))
  : state * list obs :=
  match acts with
  | [] => (st, [])
  | ta :: rest => let (st1, o) := stp st ta in
                  let (st2, os) := run_gen stp st1 rest in (st2, o :: os)
  end.
Definition run := run_gen step.
Definition spec_run := run_gen spec_step.

(* ---------------------------------------------------------------- isolation: a thread's own tags *)
(* the tag list of thread t after a history, computed from the actions of thread t ALONE *)
Definition own_step (cur : list tag) (a : act) : list tag :=
  match a with
  | AAddTag tg => cur ++ [tg]
  | AClear => []
  | AWrapBegin q => request_tags q
  | AWrapEnd dur _ => cur ++ [(k_duration_ms, n_value dur)]
  | AWrapped q dur _ => request_tags q ++ [(k_duration_ms, n_value dur)]
  | _ => cur
  end.
Definition own_tags (start : list tag) (t : N) (history : list (N * act)) : list tag :=
  fold_left own_step (map snd (filter (fun ta => fst ta =? t) history)) start.

(* ---------------------------------------------------------------- boolean equality, oracle *)
Definition value_eqb (a b : tag_value) : bool :=
  match a, b with
  | VStr x, VStr y => beq x y
  | VBool x, VBool y => Bool.eqb x y
  | VInt x, VInt y => (x =? y)%Z
  | VFloat x, VFloat y => beq x y
  | VNull, VNull => true
  | _, _ => false
  end.
Definition tag_eqb (a b : tag) : bool := beq (fst a) (fst b) && value_eqb (snd a) (snd b).
Definition level_eqb (a b : level) : bool :=
  match a, b with LError, LError => true | LInfo, LInfo => true | LDebug, LDebug => true | _, _ => false end.
Definition dest_eqb (a b : dest) : bool :=
  match a, b with DLogger x, DLogger y => x =? y | DDefault, DDefault => true | _, _ => false end.
Definition response_eqb (a b : response) : bool :=
  (r_code a =? r_code b) && option_beq N.eqb (r_body_len a) (r_body_len b) && (r_id a =? r_id b).
Definition res_eqb (a b : res) : bool :=
  match a, b with
  | RUnit, RUnit => true | ROk, ROk => true | RStopped, RStopped => true
  | RResp x, RResp y => response_eqb x y
  | RInstalled, RInstalled => true | RRefused, RRefused => true | RDropped, RDropped => true
  | RNoGuard, RNoGuard => true | RPanic, RPanic => true
  | _, _ => false
  end.
Definition event_eqb (a b : event) : bool :=
  let '(d1, l1, t1) := a in let '(d2, l2, t2) := b in
  dest_eqb d1 d2 && level_eqb l1 l2 && list_beq tag_eqb t1 t2.
Definition obs_eqb (a b : obs) : bool := res_eqb (fst a) (fst b) && list_beq event_eqb (snd a) (snd b).

(* The oracle of C18 for one call: [st] is the state the history led to (logger installed at this
   instant, receivers gone, and -- by the isolation theorem -- the calling thread's own tags); the
   observation must be what the SPECIFICATION prescribes: exactly one event (none when the logger
   has stopped, and then the error result, never a panic), sent to the logger installed now, with
   tags = the fixed order of (call tags ++ the calling thread's tags), the wrapper's response,
   level and code tag. *)
Definition oracle_c18_step (st : state) (ta : N * act) (o : obs) : bool :=
  obs_eqb o (snd (spec_step st ta)).
Fixpoint oracle_c18 (st : state) (acts : list (N * act)) (os : list obs) : bool :=
  match acts, os with
  | [], [] => true
  | ta :: rest, o :: os' => oracle_c18_step st ta o && oracle_c18 (fst (spec_step st ta)) rest os'
  | _, _ => false
  end.
(* the calling thread's tags used by the oracle are a function of that thread's own actions *)
Definition oracle_own_tags (acts : list (N * act)) : bool :=
  forallb (fun t => list_beq tag_eqb (get_tags (fst (spec_run init_state acts)) t) (own_tags [] t acts))
          (map fst acts).

(* ---------------------------------------------------------------- observations as the harness sees them *)
(* A channel logger's event is observed as the bytes LogEvent::write_jsonl renders for it; an
   event of the stdout default logger as the bytes it printed after the timestamp:
   level, space, Display of the tag list. *)
Definition render_default (lvl : level) (tags : list tag) : text :=
  level_text lvl ++ 32 :: display_taglist tags.
Definition render_event (time : text) (time_ns : N) (e : event) : dest * list N :=
  let '(d, lvl, tags) := e in
  match d with
  | DLogger _ => (d, utf8_encode (write_jsonl time time_ns lvl tags))
  | DDefault => (d, utf8_encode (render_default lvl tags))
  end.
Definition ievent := (dest * list N)%type.
Definition iobs := (res * list ievent)%type.

(* the observed bytes are a rendering of the event: for a channel logger, the C17 oracle (the line
   parses as JSON to exactly the level and the tags, in order); for the default logger, equality *)
Definition event_line_ok (ie : ievent) (e : event) : bool :=
  let '(d, lvl, tags) := e in
  dest_eqb (fst ie) d &&
  match d with
  | DLogger _ => oracle_c17_utf8 lvl tags (snd ie)
  | DDefault => beq (snd ie) (utf8_encode (render_default lvl tags))
  end.
Fixpoint list_all2 {A B} (f : A -> B -> bool) (la : list A) (lb : list B) : bool :=
  match la, lb with
  | [], [] => true
  | a :: la', b :: lb' => f a b && list_all2 f la' lb'
  | _, _ => false
  end.
Definition oracle_c18_lines_step (st : state) (ta : N * act) (io : iobs) : bool :=
  let spec := snd (spec_step st ta) in
  res_eqb (fst io) (fst spec) && list_all2 event_line_ok (snd io) (snd spec).

(* well-formed inputs (any Rust str is a scalar-value text; float texts come from Display) *)
Definition opt_text_ok (o : option text) : bool := match o with Some s => is_text s | None => true end.
Definition hr_wf (hr : handler_result) : bool :=
  match hr with
  | HOk _ => true
  | HErr msg bt etags _ => opt_text_ok msg && opt_text_ok bt && tags_wf etags
  end.
Definition request_wf (q : request) : bool := is_text (q_method q) && is_text (q_path q).
Definition act_wf (a : act) : bool :=
  match a with
  | AAddTag tg => tag_wf tg
  | ALog _ msg tags => is_text msg && tags_wf tags
  | ALogRaw _ tags => tags_wf tags
  | ALogResponse hr => hr_wf hr
  | AWrapBegin q => request_wf q
  | AWrapEnd _ hr => hr_wf hr
  | AWrapped q _ hr => request_wf q && hr_wf hr
  | _ => true
  end.
Definition state_wf (st : state) : bool := forallb (fun p => tags_wf (snd p)) (ttags st).
