(* Model/Cookie.v -- executable model of
     * the cookie loop of read_http_request (src/request.rs:255-273),
     * Display for Cookie / From<Cookie> for AsciiString (src/cookie.rs:104-152),
     * Response::with_set_cookie (src/response.rs:289-293).
   Definitions only; proofs are in Proofs/CookieP.v. *)
From Coq Require Import ZArith.
From SV Require Import Base.Bytes Spec.Civil Spec.Rfc6265 Model.Time Model.Headers.
Open Scope N_scope.

(* ---------------------------------------------------------------------------------------- *)
(* Rust std on ASCII text (header values are ASCII: AsciiString)                               *)

(* char::is_whitespace restricted to ASCII: U+0009..U+000D and U+0020 *)
Definition is_rust_ws (b : N) : bool := in_range 9 13 b || (b =? 32).
Fixpoint drop_ws (s : bytes) : bytes :=
  match s with b :: t => if is_rust_ws b then drop_ws t else s | [] => [] end.
(* str::trim *)
Definition trim (s : bytes) : bytes := rev (drop_ws (rev (drop_ws s))).
(* str::split(c): always at least one piece *)
Fixpoint split_on (c : N) (s : bytes) : list bytes :=
  match s with
  | [] => [[]]
  | b :: t => if b =? c then [] :: split_on c t
              else match split_on c t with h :: r => (b :: h) :: r | [] => [[b]] end
  end.
(* str::splitn(2, c): (parts.next(), parts.next()) = (Some first, second?) *)
Fixpoint splitn2 (c : N) (s : bytes) : bytes * option bytes :=
  match s with
  | [] => ([], None)
  | b :: t => if b =? c then ([], Some t)
              else let '(h, r) := splitn2 c t in (b :: h, r)
  end.

(* ---------------------------------------------------------------------------------------- *)
(* request side                                                                                *)

Definition cmap := list (bytes * bytes).     (* HashMap<String,String>: distinct keys *)
(* HashMap::insert: replaces the value of an existing key *)
Definition map_insert (k v : bytes) (m : cmap) : cmap :=
  (k, v) :: filter (fun p => negb (beq (fst p) k)) m.

Definition is_empty (s : bytes) : bool := match s with [] => true | _ => false end.

(* for cookie_str in header_value.split(';').map(str::trim).filter(|s| !s.is_empty()) { .. }
   None = return Err(HttpError::MalformedCookieHeader) *)
Fixpoint seg_loop (segs : list bytes) (m : cmap) : option cmap :=
  match segs with
  | [] => Some m
  | s :: rest =>
      let cookie_str := trim s in
      if is_empty cookie_str then seg_loop rest m
      else match splitn2 61 cookie_str with
           | (name, Some value) => seg_loop rest (map_insert name value m)
           | (_, None) => None
           end
  end.
(* for header_value in head.headers.get_all("cookie") { .. } *)
Fixpoint header_loop (values : list bytes) (m : cmap) : option cmap :=
  match values with
  | [] => Some m
  | v :: rest => match seg_loop (split_on 59 v) m with
                 | Some m' => header_loop rest m'
                 | None => None
                 end
  end.

Inductive req_result :=
| CookiesOk (m : cmap)
| ErrMalformedCookieHeader.
Definition request_cookies (values : list bytes) : req_result :=
  match header_loop values [] with Some m => CookiesOk m | None => ErrMalformedCookieHeader end.

Definition COOKIE : bytes := [99; 111; 111; 107; 105; 101].          (* "cookie" *)
(* from the parsed head: all fields named "cookie" (any letter case), in order *)
Definition request_cookies_of_headers (hs : hlist) : req_result := request_cookies (get_all hs COOKIE).

(* impl From<HttpError> for Response: MalformedCookieHeader => Response::text(400, ..) *)
Definition status_of_malformed_cookie_header : N := 400.

(* canonical observation: the map sorted by key (bytewise) *)
Fixpoint bytes_leb (a b : bytes) : bool :=
  match a, b with
  | [], _ => true
  | _ :: _, [] => false
  | x :: a', y :: b' => if x <? y then true else if y <? x then false else bytes_leb a' b'
  end.
Fixpoint insert_sorted (p : bytes * bytes) (l : cmap) : cmap :=
  match l with
  | [] => [p]
  | q :: r => if bytes_leb (fst p) (fst q) then p :: l else q :: insert_sorted p r
  end.
Definition sort_map (m : cmap) : cmap := fold_right insert_sorted [] m.

(* the oracle of the request side, on the structured case [fs] and the observed result *)
Definition oracle_request (fs : list field) (obs : req_result) : bool :=
  if fields_ok fs then
    match obs with CookiesOk m => map_is_last_wins (pairs_of_fields fs) m | ErrMalformedCookieHeader => false end
  else if existsb (existsb seg_is_noeq) fs then
    match obs with ErrMalformedCookieHeader => true | CookiesOk _ => false end
  else true.                                   (* outside the statement: correspondence only *)

(* ---------------------------------------------------------------------------------------- *)
(* response side                                                                               *)

Record cookie := mkcookie {
  c_name : bytes; c_value : bytes; c_domain : bytes;
  c_expires : option Z;          (* None: SystemTime::UNIX_EPOCH (unset); Some s: any other instant, s = whole seconds since the epoch *)
  c_http_only : bool; c_path : bytes;
  c_max_age_secs : N;            (* Duration::as_secs() *)
  c_max_age_subsec : bool;       (* Duration::subsec_nanos() != 0 *)
  c_same_site : same_site; c_secure : bool
}.

(* Cookie::new: panics on an empty name (None) *)
Definition cookie_new (name value : bytes) : option cookie :=
  if is_empty name then None
  else Some (mkcookie name value [] None true [] 2592000 false Strict true).

Definition S_DOMAIN : bytes := [59; 32; 68; 111; 109; 97; 105; 110; 61].        (* "; Domain=" *)
Definition S_EXPIRES : bytes := [59; 32; 69; 120; 112; 105; 114; 101; 115; 61].     (* "; Expires=" *)
Definition S_HTTPONLY : bytes := [59; 32; 72; 116; 116; 112; 79; 110; 108; 121].   (* "; HttpOnly" *)
Definition S_MAX_AGE : bytes := [59; 32; 77; 97; 120; 45; 65; 103; 101; 61].     (* "; Max-Age=" *)
Definition S_PATH : bytes := [59; 32; 80; 97; 116; 104; 61].               (* "; Path=" *)
Definition S_SS_STRICT : bytes := [59; 32; 83; 97; 109; 101; 83; 105; 116; 101; 61; 83; 116; 114; 105; 99; 116].   (* "; SameSite=Strict" *)
Definition S_SS_LAX : bytes := [59; 32; 83; 97; 109; 101; 83; 105; 116; 101; 61; 76; 97; 120].         (* "; SameSite=Lax" *)
Definition S_SS_NONE : bytes := [59; 32; 83; 97; 109; 101; 83; 105; 116; 101; 61; 78; 111; 110; 101].       (* "; SameSite=None" *)
Definition S_SECURE : bytes := [59; 32; 83; 101; 99; 117; 114; 101].       (* "; Secure" *)

(* self.expires.iso8601_utc(): None = panic (instant before the epoch: duration_since(..).unwrap()) *)
Definition expires_text (s : Z) : option bytes :=
  if (s <? 0)%Z then None else iso8601_utc_fast s.   (* = iso8601_utc (fuel_for s) s, TimeP.iso8601_utc_fast_eq *)

(* impl Display for Cookie; None = a panic inside fmt *)
Definition display_cookie (c : cookie) : option bytes :=
  let head := c_name c ++ 61 :: c_value c ++
              (if is_empty (c_domain c) then [] else S_DOMAIN ++ c_domain c) in
  let tail := (if c_http_only c then S_HTTPONLY else []) ++
              (* self.max_age > Duration::ZERO ; as_secs() *)
              (if (0 <? c_max_age_secs c) || c_max_age_subsec c then S_MAX_AGE ++ dec (c_max_age_secs c) else []) ++
              (if is_empty (c_path c) then [] else S_PATH ++ c_path c) ++
              (match c_same_site c with Strict => S_SS_STRICT | Lax => S_SS_LAX | SSNone => S_SS_NONE end) ++
              (if c_secure c then S_SECURE else []) in
  match c_expires c with
  | None => Some (head ++ tail)
  | Some s => match expires_text s with
              | Some t => Some (head ++ S_EXPIRES ++ t ++ tail)
              | None => None
              end
  end.

(* impl From<Cookie> for AsciiString: AsciiString::try_from(format!("{cookie}")).unwrap() --
   every component is an AsciiString, the stamp is ASCII: the unwrap cannot fail *)
Definition cookie_to_ascii_string (c : cookie) : option bytes := display_cookie c.

(* Response::with_set_cookie: self.headers.add("set-cookie", cookie.into()) *)
Definition SET_COOKIE : bytes := [115; 101; 116; 45; 99; 111; 111; 107; 105; 101].     (* "set-cookie" *)
Definition with_set_cookie (hs : hlist) (c : cookie) : option hlist :=
  match cookie_to_ascii_string c with Some v => Some (add hs SET_COOKIE v) | None => None end.
Fixpoint with_set_cookies (hs : hlist) (cs : list cookie) : option hlist :=
  match cs with
  | [] => Some hs
  | c :: r => match with_set_cookie hs c with Some hs' => with_set_cookies hs' r | None => None end
  end.

(* what a client following RFC 6265 5.2 must read back from the field (Expires excluded) *)
Definition canon_domain (d : bytes) : bytes :=
  map lower (match d with c :: r => if c =? 46 then r else d | [] => [] end).
Definition expected_parse (c : cookie) : sc_parsed :=
  mkparsed (c_name c) (c_value c)
    (if is_empty (c_domain c) then None else Some (canon_domain (c_domain c)))
    (if is_empty (c_path c) then None else Some (c_path c))
    (if (0 <? c_max_age_secs c) then Some (Z.of_N (c_max_age_secs c)) else None)
    (c_secure c) (c_http_only c) (Some (c_same_site c)).

(* "built from RFC-valid name, value and attribute characters" *)
Definition no_edge_blank (s : bytes) : bool :=
  match s with [] => true | b :: _ => negb (is_blank b) end &&
  match rev s with [] => true | b :: _ => negb (is_blank b) end.
Definition cookie_ok (c : cookie) : bool :=
  is_cookie_name (c_name c) && is_cookie_value (c_value c) &&
  forallb is_domain_byte (c_domain c) &&
  (is_empty (c_path c) || (match c_path c with 47 :: _ => true | _ => false end &&
                           forallb is_av_byte (c_path c) && no_edge_blank (c_path c))) &&
  negb (c_max_age_subsec c) &&
  match c_expires c with None => true | Some s => (0 <=? s)%Z end.

(* the oracle of the response side: the observed Set-Cookie value reads back as expected *)
Definition oracle_set_cookie (c : cookie) (obs : bytes) : bool :=
  if cookie_ok c then
    match parse_set_cookie obs with Some p => parsed_eqb p (expected_parse c) | None => false end
  else true.
(* one Set-Cookie field per cookie: the observed set-cookie values are as many as the cookies and
   each reads back as its cookie *)
Fixpoint oracle_set_cookies (cs : list cookie) (obs : list bytes) : bool :=
  match cs, obs with
  | [], [] => true
  | c :: cr, o :: orest => oracle_set_cookie c o && oracle_set_cookies cr orest
  | _, _ => false
  end.
