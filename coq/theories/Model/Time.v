(* Model/Time.v -- executable model of src/time.rs (DateTime::new, balance*, Add<Duration>,
   the format strings).  Definitions only; proofs are in Proofs/TimeP.v.

   Numbers are unbounded Z.  Rust's i64 `/` and `%` truncate; every division in the anchored code
   is guarded by `x > c` with c >= 0, so the dividend is positive and truncating = flooring;
   `year % k == 0` is a divisibility test and is transcribed with Z.rem (truncating remainder).
   Inputs that the real code rejects or on which i64 arithmetic would overflow are explicit
   outcomes ([PanicTryFrom], [Overflow]) and are outside the domain of the theorems. *)
From Coq Require Import ZArith.
From SV Require Import Base.Bytes Spec.Civil.
Open Scope Z_scope.

Inductive outcome :=
| Ok (t : dt)
| PanicAssert (which : N)     (* 1: sec  2: min  3: hour  4: month  -- the four assert!s *)
| PanicUnimplemented          (* month_len_days on a month outside 1..12 *)
| PanicTryFrom                (* i64::try_from(rhs.as_secs()).unwrap() on a value >= 2^63 *)
| Overflow                    (* self.sec + secs exceeds i64::MAX (debug: panic, release: wraps) *)
| OutOfFuel.

Definition bind (o : outcome) (f : dt -> outcome) : outcome :=
  match o with Ok t => f t | e => e end.

(* fn is_leap_year *)
Definition is_leap_year (y : Z) : bool :=
  if Z.rem y 400 =? 0 then true else if Z.rem y 100 =? 0 then false else Z.rem y 4 =? 0.
(* fn year_len_days *)
Definition year_len_days (y : Z) : Z := if is_leap_year y then 366 else 365.
(* pub fn month_len_days; None = unimplemented!() *)
Definition month_len_days (y m : Z) : option Z :=
  match m with
  | 1 => Some 31
  | 2 => Some (if Z.rem y 400 =? 0 then 29 else if Z.rem y 100 =? 0 then 28
               else if Z.rem y 4 =? 0 then 29 else 28)
  | 3 => Some 31 | 4 => Some 30 | 5 => Some 31 | 6 => Some 30 | 7 => Some 31 | 8 => Some 31
  | 9 => Some 30 | 10 => Some 31 | 11 => Some 30 | 12 => Some 31
  | _ => None
  end.

Definition set_ym (t : dt) (y m : Z) : dt := mkdt y m (day t) (hour t) (minute t) (sec t).
Definition set_yd (t : dt) (y d : Z) : dt := mkdt y (month t) d (hour t) (minute t) (sec t).
Definition set_md (t : dt) (m d : Z) : dt := mkdt (year t) m d (hour t) (minute t) (sec t).

(* fn balance_month *)
Definition balance_month (t : dt) : outcome :=
  if month t >? 12 then
    let delta_years := (month t - 1) / 12 in
    let t' := set_ym t (year t + delta_years) (month t - 12 * delta_years) in
    if (1 <=? month t') && (month t' <=? 12) then Ok t' else PanicAssert 4
  else Ok t.

(* first loop of balance_day: while self.day > 366 { ... }.
   [fixed] = true is the code after the repair of D12, false the code before it. *)
Fixpoint year_loop (fixed : bool) (fuel : nat) (t : dt) : outcome :=
  if day t >? 366 then
    match fuel with
    | O => OutOfFuel
    | S f =>
        let sub := if fixed && (month t >? 2) then year_len_days (year t + 1)
                   else year_len_days (year t) in
        year_loop fixed f (set_yd t (year t + 1) (day t - sub))
    end
  else Ok t.

(* second loop of balance_day: while self.day > month_len_days(..) { ...; self.balance_month() } *)
Fixpoint month_loop (fuel : nat) (t : dt) : outcome :=
  match month_len_days (year t) (month t) with
  | None => PanicUnimplemented
  | Some ml =>
      if day t >? ml then
        match fuel with
        | O => OutOfFuel
        | S f => bind (balance_month (set_md t (month t + 1) (day t - ml))) (month_loop f)
        end
      else Ok t
  end.

(* fn balance_day *)
Definition balance_day (fixed : bool) (fuel : nat) (t : dt) : outcome :=
  bind (balance_month t) (fun t1 => bind (year_loop fixed fuel t1) (month_loop fuel)).

(* fn balance_hour *)
Definition balance_hour (fixed : bool) (fuel : nat) (t : dt) : outcome :=
  if hour t >? 23 then
    let delta_days := hour t / 24 in
    let t' := mkdt (year t) (month t) (day t + delta_days) (hour t - 24 * delta_days) (minute t) (sec t) in
    if (0 <=? hour t') && (hour t' <? 24) then balance_day fixed fuel t' else PanicAssert 3
  else balance_day fixed fuel t.

(* fn balance_min *)
Definition balance_min (fixed : bool) (fuel : nat) (t : dt) : outcome :=
  if minute t >? 59 then
    let delta_hours := minute t / 60 in
    let t' := mkdt (year t) (month t) (day t) (hour t + delta_hours) (minute t - 60 * delta_hours) (sec t) in
    if (0 <=? minute t') && (minute t' <? 60) then balance_hour fixed fuel t' else PanicAssert 2
  else balance_hour fixed fuel t.

(* pub fn balance *)
Definition balance (fixed : bool) (fuel : nat) (t : dt) : outcome :=
  if sec t >? 59 then
    let delta_mins := sec t / 60 in
    let t' := mkdt (year t) (month t) (day t) (hour t) (minute t + delta_mins) (sec t - 60 * delta_mins) in
    if (0 <=? sec t') && (sec t' <? 60) then balance_min fixed fuel t' else PanicAssert 1
  else balance_min fixed fuel t.

(* DateTime::new *)
Definition new_gen (fixed : bool) (fuel : nat) (epoch_seconds : Z) : outcome :=
  balance fixed fuel (mkdt 1970 1 1 0 0 epoch_seconds).
Definition new := new_gen true.

(* impl Add<Duration> for DateTime; [secs] = rhs.as_secs(), a u64 *)
Definition i64_max : Z := 9223372036854775807.
Definition add_gen (fixed : bool) (fuel : nat) (t : dt) (secs : Z) : outcome :=
  if secs >? i64_max then PanicTryFrom
  else if sec t + secs >? i64_max then Overflow
  else balance fixed fuel (mkdt (year t) (month t) (day t) (hour t) (minute t) (sec t + secs)).
Definition add := add_gen true.
Definition add_prefix := add_gen false.   (* the tree before the repair of D12 *)

(* fuel that suffices for an instant / a duration of [s] seconds (see TimeP.new_correct) *)
Definition fuel_for (s : Z) : nat := (Z.to_nat (s / 31536000) + 14)%nat.

(* ---- the format strings ---- *)
(* `{:0w}` of an i64: decimal digits, zero-padded to at least w columns, sign first *)
Definition pad (w : nat) (digits : bytes) : bytes := repeat 48%N (w - length digits) ++ digits.
Definition fmt_int (w : nat) (z : Z) : bytes :=
  if z <? 0 then 45%N :: pad (w - 1) (dec (Z.to_N (- z))) else pad w (dec (Z.to_N z)).

(* "{:04}-{:02}-{:02}T{:02}:{:02}:{:02}Z" -- iso8601_utc, cookie Expires, the jsonl "time" member *)
Definition fmt_iso (t : dt) : bytes :=
  fmt_int 4 (year t) ++ [45%N] ++ fmt_int 2 (month t) ++ [45%N] ++ fmt_int 2 (day t) ++ [84%N] ++
  fmt_int 2 (hour t) ++ [58%N] ++ fmt_int 2 (minute t) ++ [58%N] ++ fmt_int 2 (sec t) ++ [90%N].
(* "{:04}{:02}{:02}T{:02}{:02}{:02}Z" -- the time part of log file names *)
Definition fmt_compact (t : dt) : bytes :=
  fmt_int 4 (year t) ++ fmt_int 2 (month t) ++ fmt_int 2 (day t) ++ [84%N] ++
  fmt_int 2 (hour t) ++ fmt_int 2 (minute t) ++ fmt_int 2 (sec t) ++ [90%N].

(* SystemTime::iso8601_utc for the instant UNIX_EPOCH + s *)
Definition iso8601_utc (fuel : nat) (s : Z) : option bytes :=
  match new fuel s with Ok t => Some (fmt_iso t) | _ => None end.

(* ---- O(1) evaluation with a hint (used by the driver for the large sweeps) ----
   [hint] is a candidate date supplied from outside; it is used only if the calendar
   specification confirms it, otherwise the fuelled model runs.  TimeP.new_hinted_eq and
   TimeP.day_hinted_correct prove that the answer is the fuelled model's for every hint. *)
Definition new_hinted (hint : Z * Z * Z) (s : Z) : outcome :=
  let t := at_sod hint (s mod 86400) in
  if (0 <=? s) && oracle_new s t then Ok t else new (fuel_for s) s.

(* the date of day number k *)
Definition day_hinted (hint : Z * Z * Z) (k : Z) : Z * Z * Z :=
  let '(y, m, d) := hint in
  if valid_dateb y m d && (abs_days_fast y m d =? k) then hint
  else match new (fuel_for (86400 * k)) (86400 * k) with
       | Ok t => (year t, month t, day t)
       | _ => hint
       end.

(* ---- O(1) evaluation without an outside hint ----
   [civil_guess] is the usual days-to-civil arithmetic; it is NOT trusted and nothing is proved
   about it: its answer is only a hint for [new_hinted], so [new_fast s = new (fuel_for s) s]
   holds whatever it returns (TimeP.new_fast_eq). *)
Definition civil_guess (days : Z) : Z * Z * Z :=
  let z := days + 719468 in
  let era := z / 146097 in
  let doe := z - era * 146097 in
  let yoe := (doe - doe / 1460 + doe / 36524 - doe / 146096) / 365 in
  let doy := doe - (365 * yoe + yoe / 4 - yoe / 100) in
  let mp := (5 * doy + 2) / 153 in
  let d := doy - (153 * mp + 2) / 5 + 1 in
  let m := if mp <? 10 then mp + 3 else mp - 9 in
  let y := yoe + era * 400 + (if m <=? 2 then 1 else 0) in
  (y, m, d).
Definition new_fast (s : Z) : outcome := new_hinted (civil_guess (s / 86400)) s.
Definition iso8601_utc_fast (s : Z) : option bytes :=
  match new_fast s with Ok t => Some (fmt_iso t) | _ => None end.

(* names for extraction ([new] is an OCaml keyword, [add] clashes with Nat.add) *)
Definition datetime_new := new.
Definition datetime_add := add.
