(* Model/Event.v -- executable model of src/event.rs (Event::write_to / push_to, data_lines,
   EventSender, EventReceiver::poll_read), Response::event_stream() (src/response.rs: a bounded
   channel of 50 events) and of copy_chunked_async (src/util.rs) as the writer of the stream.
   Definitions only; proofs are in Proofs/EventP.v.

   Text is a byte string (the UTF-8 bytes of the Rust String).  [fixed] = true is the current
   tree (data split on CRLF / LF / CR, one `data: ` field per segment, including empty ones);
   [fixed] = false is the tree before the repair of D8 (`str::lines`). *)
From SV Require Import Base.Bytes Spec.Sse.

Inductive event :=
| Message (data : bytes)
| Custom (etype data : bytes).

Definition ev_type (e : event) : bytes := match e with Message _ => [] | Custom t _ => t end.
Definition ev_data (e : event) : bytes := match e with Message d => d | Custom _ d => d end.

Definition no_crlf (s : bytes) : bool := forallb (fun c => negb ((c =? 13) || (c =? 10))) s.
Definition no_cr (s : bytes) : bool := forallb (fun c => negb (c =? 13)) s.

(* Event::custom: Err when the type contains CR or LF *)
Definition event_custom (t d : bytes) : option event :=
  if no_crlf t then Some (Custom t d) else None.
(* events the public constructors can build *)
Definition ev_wf (e : event) : bool := no_crlf (ev_type e).

(* data_lines (current tree): split at every CRLF, LF or CR; one more segment than terminators *)
Fixpoint data_lines (s : bytes) : list bytes :=
  match s with
  | [] => [[]]
  | c :: t =>
      if c =? 10 then [] :: data_lines t
      else if c =? 13 then
        match t with
        | 10 :: t' => [] :: data_lines t'
        | _ => [] :: data_lines t
        end
      else match data_lines t with
           | h :: r => (c :: h) :: r
           | [] => [[c]]
           end
  end.

(* str::lines (tree before D8): split at LF, a CR directly before the LF (or at the very end of
   the last line) is removed, no final empty line, "" has no lines *)
Fixpoint split_lf (s : bytes) : list bytes :=
  match s with
  | [] => [[]]
  | c :: t =>
      if c =? 10 then [] :: split_lf t
      else match split_lf t with
           | h :: r => (c :: h) :: r
           | [] => [[c]]
           end
  end.
Definition strip_last_cr (l : bytes) : bytes :=
  match frev l with 13 :: r => frev r | _ => l end.
Definition str_lines (s : bytes) : list bytes :=
  let segs := split_lf s in
  let segs' := match frev segs with [] :: r => frev r | _ => segs end in
  map strip_last_cr segs'.

Definition t_event : bytes := [101; 118; 101; 110; 116; 58; 32].    (* "event: " *)
Definition t_data : bytes := [100; 97; 116; 97; 58; 32].            (* "data: " *)

Definition lines_of (fixed : bool) (d : bytes) : list bytes :=
  if fixed then data_lines d else str_lines d.

(* Event::push_to / the bytes write_to produces when the buffer is large enough *)
Definition encode_gen (fixed : bool) (e : event) : bytes :=
  (match e with
   | Message _ => []
   | Custom t _ => t_event ++ t ++ [10]
   end) ++
  concat (map (fun l => t_data ++ l ++ [10]) (lines_of fixed (ev_data e))).
Definition encode_event := encode_gen true.

(* newline-normalised data: what any event-stream parser can recover at best *)
Fixpoint join_lf (ls : list bytes) : bytes :=
  match ls with
  | [] => []
  | [l] => l
  | l :: r => l ++ 10 :: join_lf r
  end.
Definition normalize_data (d : bytes) : bytes := join_lf (data_lines d).

(* ---- private copy of the chunk framing of copy_chunked_async (to be unified with
   Model/Chunked.v of C07) ---- *)
Definition hexd (d : N) : N := if d <? 10 then 48 + d else 87 + d.
Definition hex4 (n : N) : bytes :=
  [hexd (n / 4096 mod 16); hexd (n / 256 mod 16); hexd (n / 16 mod 16); hexd (n mod 16)].
Fixpoint trim0 (l : bytes) : bytes := match l with 48 :: t => trim0 t | _ => l end.
Definition encode_piece (p : bytes) : bytes :=
  trim0 (hex4 (N.of_nat (length p)) ++ crlf ++ p ++ crlf).
Definition terminator : bytes := [48; 13; 10; 13; 10].

Definition unhexd (c : N) : option N :=
  if (48 <=? c) && (c <=? 57) then Some (c - 48)
  else if (97 <=? c) && (c <=? 102) then Some (c - 87)
  else if (65 <=? c) && (c <=? 70) then Some (c - 55) else None.
Fixpoint read_hex (acc : N) (seen : bool) (l : bytes) : option (N * bytes) :=
  match l with
  | c :: t => match unhexd c with
              | Some d => read_hex (16 * acc + d) true t
              | None => if seen then Some (acc, l) else None end
  | [] => if seen then Some (acc, []) else None
  end.
(* de-chunk: the payloads of the complete chunks at the front of [l], whether the terminating
   chunk follows them, and whether anything unparsable is left *)
Inductive dechunked := Dechunked (pieces : list bytes) (terminated : bool) (clean : bool).
Fixpoint dechunk (fuel : nat) (l : bytes) : dechunked :=
  match fuel with
  | O => Dechunked [] false false
  | S f =>
      match l with
      | [] => Dechunked [] false true
      | _ =>
          match read_hex 0 false l with
          | Some (n, 13 :: 10 :: l2) =>
              if n =? 0 then
                match l2 with
                | [13; 10] => Dechunked [] true true
                | _ => Dechunked [] false false
                end
              else
                (* compare in N first: a garbled size line may denote an astronomically large number *)
                if N.of_nat (length l2) <? n then Dechunked [] false false else
                let k := N.to_nat n in
                match skipn k l2 with
                | 13 :: 10 :: l3 =>
                    match dechunk f l3 with
                    | Dechunked ps t c => Dechunked (firstn k l2 :: ps) t c
                    end
                | _ => Dechunked [] false false
                end
          | _ => Dechunked [] false false
          end
      end
  end.

(* ---- the channel and its users, as a transition system ---- *)
Definition queue_cap : nat := 50.

Inductive wstate :=
| WActive          (* copy_chunked_async still running *)
| WTerminated      (* terminating chunk written, CopyResult::Ok *)
| WReaderErr       (* write_to failed (event larger than the read buffer): CopyResult::ReaderErr *)
| WWriterErr.      (* the client is gone: CopyResult::WriterErr *)

Record handle := mk_handle { h_id : nat; h_conn : bool }.   (* EventSender(Option<SyncSender>) *)

Record cst := mk_cst {
  queue : list event;            (* events in the channel, oldest first *)
  handles : list handle;         (* EventSender values that exist *)
  next_h : nat;
  recv_alive : bool;             (* the Response (and with it the EventReceiver) exists *)
  client_gone : bool;            (* writes to the client fail from now on *)
  wire : list bytes;             (* payloads of the chunks written so far, oldest first *)
  wst : wstate;
  accepted : list event;         (* events whose send() left the sender connected *)
  delivered : list event         (* ghost: events whose block has been written *)
}.

(* Response::event_stream(): sync_channel(50), one connected EventSender *)
Definition cinit : cst := mk_cst [] [mk_handle 0 true] 1 true false [] WActive [] [].

Inductive caction :=
| Send (i : nat) (e : event)
| Clone (i : nat)
| Disconnect (i : nat)
| DropSender (i : nat)
| WriterPoll          (* one poll_read of the EventReceiver and the write it leads to *)
| ClientGone.

Fixpoint find_h (i : nat) (hs : list handle) : option handle :=
  match hs with
  | [] => None
  | h :: r => if Nat.eqb (h_id h) i then Some h else find_h i r
  end.
Fixpoint set_h (i : nat) (b : bool) (hs : list handle) : list handle :=
  match hs with
  | [] => []
  | h :: r => if Nat.eqb (h_id h) i then mk_handle i b :: r else h :: set_h i b r
  end.
Fixpoint del_h (i : nat) (hs : list handle) : list handle :=
  match hs with
  | [] => []
  | h :: r => if Nat.eqb (h_id h) i then r else h :: del_h i r
  end.
(* number of SyncSender clones alive = connected handles *)
Definition live_senders (s : cst) : nat := length (filter h_conn (handles s)).

Definition set_handles (s : cst) (hs : list handle) : cst :=
  mk_cst (queue s) hs (next_h s) (recv_alive s) (client_gone s) (wire s) (wst s) (accepted s) (delivered s).
(* copy_chunked_async returned: the harness / the server drops the Response at once *)
Definition finish (s : cst) (q : list event) (w : list bytes) (st : wstate) : cst :=
  mk_cst q (handles s) (next_h s) false (client_gone s) w st (accepted s) (delivered s).

Definition cstep (fixed : bool) (cap : nat) (s : cst) (a : caction) : option cst :=
  match a with
  | Send i e =>
      match find_h i (handles s) with
      | None => None
      | Some h =>
          if h_conn h then
            (* try_send: Err(Full) when 50 events wait, Err(Disconnected) when the receiver is gone *)
            if recv_alive s && (length (queue s) <? queue_cap)%nat
            then Some (mk_cst (queue s ++ [e]) (handles s) (next_h s) (recv_alive s) (client_gone s)
                              (wire s) (wst s) (accepted s ++ [e]) (delivered s))
            else Some (set_handles s (set_h i false (handles s)))
          else Some s          (* an unconnected sender ignores the event *)
      end
  | Clone i =>
      match find_h i (handles s) with
      | None => None
      | Some h => Some (mk_cst (queue s) (handles s ++ [mk_handle (next_h s) (h_conn h)]) (S (next_h s))
                               (recv_alive s) (client_gone s) (wire s) (wst s) (accepted s) (delivered s))
      end
  | Disconnect i =>
      match find_h i (handles s) with
      | None => None
      | Some _ => Some (set_handles s (set_h i false (handles s)))
      end
  | DropSender i =>
      match find_h i (handles s) with
      | None => None
      | Some _ => Some (set_handles s (del_h i (handles s)))
      end
  | ClientGone => Some (mk_cst (queue s) (handles s) (next_h s) (recv_alive s) true (wire s) (wst s) (accepted s) (delivered s))
  | WriterPoll =>
      match wst s with
      | WActive =>
          match queue s with
          | e :: q =>
              let enc := encode_gen fixed e in
              if (cap <? length enc)%nat then Some (finish s q (wire s) WReaderErr)   (* WriteZero *)
              else match enc with
                   | [] => (* a 0-byte read is taken for the end of the stream *)
                       if client_gone s then Some (finish s q (wire s) WWriterErr)
                       else Some (finish s q (wire s) WTerminated)
                   | _ =>
                       if client_gone s then Some (finish s q (wire s) WWriterErr)
                       else Some (mk_cst q (handles s) (next_h s) (recv_alive s) (client_gone s)
                                         (wire s ++ [enc]) (wst s) (accepted s) (delivered s ++ [e]))
                   end
          | [] =>
              if (live_senders s =? 0)%nat
              then (* RecvError -> Ok(0) -> terminating chunk *)
                if client_gone s then Some (finish s [] (wire s) WWriterErr)
                else Some (finish s [] (wire s) WTerminated)
              else Some s      (* Pending *)
          end
      | _ => Some s
      end
  end.

Fixpoint crun (fixed : bool) (cap : nat) (s : cst) (tr : list caction) : option cst :=
  match tr with
  | [] => Some s
  | a :: t => match cstep fixed cap s a with Some s' => crun fixed cap s' t | None => None end
  end.

(* the bytes on the wire *)
Definition wire_bytes (s : cst) : bytes :=
  concat (map encode_piece (wire s)) ++ match wst s with WTerminated => terminator | _ => [] end.
(* the de-chunked stream as it is, and with the dispatch line supplied at every chunk end *)
Definition stream_raw (ps : list bytes) : bytes := concat ps.
Definition stream_supplied (ps : list bytes) : bytes := concat (map (fun p => p ++ [10]) ps).

Definition expected_of (e : event) : bytes * bytes := (ev_type e, normalize_data (ev_data e)).

(* ---- observation replay: what the correspondence check compares and the oracle reads ---- *)
Definition is_connected (s : cst) (i : nat) : bool :=
  match find_h i (handles s) with Some h => h_conn h | None => false end.

Fixpoint forall2b {A B} (f : A -> B -> bool) (a : list A) (b : list B) : bool :=
  match a, b with
  | [], [] => true
  | x :: a', y :: b' => f x y && forall2b f a' b'
  | _, _ => false
  end.

Definition pair_beq (a b : bytes * bytes) : bool := beq (fst a) (fst b) && beq (snd a) (snd b).

(* Known-finding class D9: the stream carries at least one block and no block is followed by the
   blank line that makes an EventSource dispatch it. *)
Definition ends_with_blank_line (p : bytes) : bool :=
  match frev p with
  | 10 :: 10 :: _ => true
  | 13 :: 13 :: _ => true
  | 10 :: 13 :: 10 :: 13 :: _ => true
  | 10 :: 13 :: 10 :: _ => true
  | 13 :: 10 :: _ => true
  | _ => false
  end.
Definition kf_c11_missing_blank_line (pieces : list bytes) : bool :=
  negb (match pieces with [] => true | _ => false end) &&
  forallb (fun p => negb (ends_with_blank_line p)) pieces.

(* The oracle, evaluated on what the implementation put on the wire.
   [acc]      events accepted according to the implementation's own is_connected() answers
   [bytes]    everything the recording writer received
   [term_ok]  the implementation reported CopyResult::Ok
   [all_gone] no sender handle was connected when the case ended
   [lossless] the history contains no ClientGone and no oversize event
   [drained]  the writer was polled until it finished
   [steps]    per step: (terminating chunk on the wire, some sender still reports connected)
   modulo the class D9: the dispatch line is supplied at every chunk end. *)
Inductive c11_verdict := VOk | VBadChunking | VBlockMismatch | VCount | VTerminator | VNoDispatch.

Definition oracle_c11_modulo (acc : list event) (wire_all : bytes) (term_ok all_gone lossless drained : bool)
           (steps : list (bool * bool)) : c11_verdict :=
  (* the terminating chunk is never on the wire while some sender reports connected *)
  if negb (forallb (fun tc => negb (fst tc && snd tc)) steps) then VTerminator else
  match dechunk (S (length wire_all)) wire_all with
  | Dechunked ps t clean =>
      if negb clean then VBadChunking else
      (* every block, on its own, dispatches exactly the corresponding accepted event *)
      if negb (forall2b (fun p e => list_beq pair_beq (sse_parse (p ++ [10])) [expected_of e])
                        ps (firstn (length ps) acc)) then VBlockMismatch else
      (* and so does the whole stream: blocks = accepted events, once each, in order *)
      if negb (list_beq pair_beq (sse_parse (stream_supplied ps)) (map expected_of (firstn (length ps) acc)))
      then VBlockMismatch else
      if negb (Bool.eqb t term_ok) then VTerminator else
      (* at normal termination every accepted event has been delivered *)
      if t && lossless && negb (Nat.eqb (length ps) (length acc)) then VCount else
      (* all senders gone and the writer polled to quiescence: the stream has been terminated *)
      if drained && lossless && all_gone && negb t then VTerminator else
      VOk
  end.
(* the full property: the stream as sent must dispatch the events *)
Definition oracle_c11_strict (acc : list event) (wire_all : bytes) : c11_verdict :=
  match dechunk (S (length wire_all)) wire_all with
  | Dechunked ps t clean =>
      if list_beq pair_beq (sse_parse (stream_raw ps)) (map expected_of (firstn (length ps) acc))
      then VOk else VNoDispatch
  end.
Definition pieces_of (wire_all : bytes) : list bytes :=
  match dechunk (S (length wire_all)) wire_all with Dechunked ps _ _ => ps end.

(* Known-finding class D17: the history hands an event to a sender whose encoding does not fit the
   read buffer of [cap] bytes that copy_chunked_async offers to EventReceiver::poll_read
   (Event::write_to then fails with WriteZero). *)
Definition oversize_action (cap : nat) (a : caction) : bool :=
  match a with
  | Send _ e => (cap <? length (encode_event e))%nat
  | _ => false
  end.
Definition kf_c11_oversize_event (cap : nat) (tr : list caction) : bool :=
  existsb (oversize_action cap) tr.
