(* Model/LogFile.v -- executable model of src/log/prefix_file_set.rs (PrefixFile, PrefixFileSet)
   and src/log/log_file_writer.rs (LogFile, LogFileWriter::start_writer_thread).
   Definitions only; the proofs are in Proofs/LogFileP.v and Proofs/LogFileW.v.

   Conventions
   * times, sizes, ids are [N]; a time is a number of clock ticks (the unit is a parameter:
     [ticks_per_sec] of the configuration tells how many ticks make one second of a file name).
   * the directory is a list of [file] records IN CREATION ORDER.  A deleted file stays in the list
     with [f_alive = false] (a ghost: the directory listing is [filter f_alive]); this makes "what
     was ever written" a plain list, so the retention theorems are equations over it.
   * a serialised event is an opaque line [(id, size, time)]: [l_size] bytes ending in LF, written
     by the writer at clock value [l_time] (the value of [now] in the loop body).
   * u64 arithmetic that the Rust compiler cannot rule out is explicit: [add64]/[sub64] yield
     [None] (= panic) in [Debug] mode and wrap modulo 2^64 in [Release] mode.
   * BinaryHeap<PrefixFile> (ordered by oldest mtime first) is a list [entries] plus "pop A
     minimal-mtime element": which one of several elements of equal minimal mtime is popped is
     decided by a schedule [ties : list nat] consumed one number per pop (k-th of the minimal ones,
     modulo their count; an exhausted schedule means 0 = the one pushed first).  Every theorem
     quantifies over all schedules, i.e. over every behaviour a heap may show.
   * the three repairs of D14 are switches of [variant]; [post_fix] is the code as it is now. *)
From SV Require Import Base.Bytes.

(* ------------------------------------------------------------------ machine arithmetic *)
Definition two64 : N := 18446744073709551616.
Definition two63 : N := 9223372036854775808.
Inductive mode := Debug | Release.

Definition add64 (m : mode) (a b : N) : option N :=
  if a + b <? two64 then Some (a + b)
  else match m with Debug => None | Release => Some ((a + b) mod two64) end.
Definition sub64 (m : mode) (a b : N) : option N :=
  if b <=? a then Some (a - b)
  else match m with Debug => None | Release => Some ((a + two64 - b) mod two64) end.
(* u64::saturating_sub is the truncated subtraction of N *)
Definition sat_sub (a b : N) : N := a - b.

Record variant := mkVariant {
  v_push_counts : bool;   (* PrefixFileSet::push adds the file length to [len]          (D14a) *)
  v_byte_prefix : bool;   (* PrefixFileSet::new compares bytes, not whole path components (D14b) *)
  v_sat_budget  : bool;   (* the writer computes its deletion budget with saturating_sub (D14c) *)
  v_fix18       : bool    (* Ord for PrefixFile breaks mtime ties by path                 (D18)  *)
}.
Definition post (b18 : bool) : variant := mkVariant true true true b18.
Definition post_fix : variant := post false.     (* D14 repaired, D18 not *)
Definition fix18 : variant := post true.         (* D14 and D18 repaired *)
Definition pre_fix  : variant := mkVariant false false false false.

(* ------------------------------------------------------------------ files *)
(* A file name inside the log directory: either arbitrary bytes, or the name LogFile::create
   builds, <prefix>.<YYYYMMDDTHHMMSSZ of second [sec]>-<n>. *)
Inductive fname := NPre (b : bytes) | NGen (sec n : N).
Definition fname_eqb (a b : fname) : bool :=
  match a, b with
  | NPre x, NPre y => beq x y
  | NGen s n, NGen s' n' => (s =? s') && (n =? n')
  | _, _ => false
  end.

Record line := mkLine { l_id : N; l_size : N; l_time : N }.

Record file := mkFile {
  f_name : fname;
  f_reg : bool;          (* regular file (true) or directory (false) *)
  f_alive : bool;        (* false once deleted (ghost) *)
  f_mtime : N;           (* time of the last write *)
  f_created : N;         (* time of creation (ghost) *)
  f_lines : list line    (* content *)
}.
Definition sumN (l : list N) : N := fold_right N.add 0 l.
Definition f_size (f : file) : N := sumN (map l_size (f_lines f)).
Definition kill (f : file) : file :=
  mkFile (f_name f) (f_reg f) false (f_mtime f) (f_created f) (f_lines f).
Definition listing (fs : list file) : list file := filter f_alive fs.

(* Does a directory entry match the path prefix?
   repaired: byte-wise prefix of the file name (generated names start with the prefix by
   construction); before D14b: Path::starts_with compares whole components, and since entry and
   prefix have the same number of components this is equality with the prefix's file name. *)
Definition matches (v : variant) (prefix : bytes) (nm : fname) : bool :=
  if v_byte_prefix v then
    match nm with NPre b => starts_with prefix b | NGen _ _ => true end
  else
    match nm with NPre b => beq b prefix | NGen _ _ => false end.
Definition is_log_file (v : variant) (prefix : bytes) (f : file) : bool :=
  f_alive f && f_reg f && matches v prefix (f_name f).

(* std::fs::remove_file(path): the first (only) live entry of that name; fails on a directory. *)
Fixpoint fs_remove (nm : fname) (fs : list file) : option (list file) :=
  match fs with
  | [] => None
  | f :: t =>
      if f_alive f && fname_eqb (f_name f) nm
      then (if f_reg f then Some (kill f :: t) else None)
      else match fs_remove nm t with Some t' => Some (f :: t') | None => None end
  end.

(* ------------------------------------------------------------------ PrefixFileSet *)
Record pfile := mkPfile { p_name : fname; p_mtime : N; p_len : N }.
Record pset := mkPset { entries : list pfile; slen : N; ties : list nat }.

Inductive res (A : Type) := ROk (a : A) | RErr (a : A) | RPanic.
Arguments ROk {A} a.
Arguments RErr {A} a.
Arguments RPanic {A}.
Definition bind {A B} (r : res A) (f : A -> res B) (e : A -> B) : res B :=
  match r with ROk a => f a | RErr a => RErr (e a) | RPanic => RPanic end.

Definition min_mtime (es : list pfile) : option N :=
  match es with
  | [] => None
  | e :: t => Some (fold_right (fun x a => N.min (p_mtime x) a) (p_mtime e) t)
  end.

(* remove the k-th (0-based) element satisfying p *)
Fixpoint take_kth {A} (p : A -> bool) (k : nat) (l : list A) : option (A * list A) :=
  match l with
  | [] => None
  | x :: t =>
      if p x then
        match k with
        | O => Some (x, t)
        | S k' => match take_kth p k' t with Some (y, r) => Some (y, x :: r) | None => None end
        end
      else match take_kth p k t with Some (y, r) => Some (y, x :: r) | None => None end
  end.
Definition count_if {A} (p : A -> bool) (l : list A) : nat := length (filter p l).

(* The order of the heap (reversed Ord of PrefixFile: the heap is a max-heap).
   before D18: by mtime only.
   after  D18: by mtime, then by path.  Paths inside one directory compare like their file names,
   byte-wise; a generated name <prefix>.<stamp of sec>-<n> compares by the second (the stamp has
   fixed width) and then by the DECIMAL TEXT of n ("-10" sorts before "-2").  The order between an
   arbitrary name and a generated one would need the rendered stamp; the model puts arbitrary
   names first (it matters only when such a pair has equal mtime). *)
Fixpoint lex_leb (a b : list N) : bool :=
  match a, b with
  | [], _ => true
  | _ :: _, [] => false
  | x :: a', y :: b' => (x <? y) || ((x =? y) && lex_leb a' b')
  end.
Definition name_key (nm : fname) : list N :=
  match nm with NPre b => 0 :: b | NGen sec n => 1 :: sec :: dec n end.
Definition mtime_leb (a b : pfile) : bool := p_mtime a <=? p_mtime b.
Definition key_leb (a b : pfile) : bool :=
  (p_mtime a <? p_mtime b) || ((p_mtime a =? p_mtime b) && lex_leb (name_key (p_name a)) (name_key (p_name b))).
Definition heap_leb (v : variant) : pfile -> pfile -> bool := if v_fix18 v then key_leb else mtime_leb.
Definition is_min (leb : pfile -> pfile -> bool) (es : list pfile) (e : pfile) : bool := forallb (leb e) es.

(* BinaryHeap::pop: one of the elements that are minimal in the heap order leaves; [k] chooses
   among several (before D18: all entries of minimal mtime; after D18: only entries with the
   same mtime AND path) *)
Definition pop (v : variant) (k : nat) (es : list pfile) : option (pfile * list pfile) :=
  let p := is_min (heap_leb v) es in
  take_kth p (Nat.modulo k (count_if p es)) es.

Definition sys := (list file * pset)%type.

(* PrefixFileSet::new -- the heap of matching regular files and the sum of their lengths
   (Iterator::sum on u64 panics on overflow in debug builds and wraps in release builds). *)
Definition entry_of (f : file) : pfile := mkPfile (f_name f) (f_mtime f) (f_size f).
Fixpoint sum64 (m : mode) (acc : N) (l : list N) : option N :=
  match l with
  | [] => Some acc
  | x :: t => match add64 m acc x with Some a => sum64 m a t | None => None end
  end.
Definition set_new (v : variant) (m : mode) (prefix : bytes) (fs : list file) (ts : list nat) : res pset :=
  let es := map entry_of (filter (is_log_file v prefix) fs) in
  match sum64 m 0 (map p_len es) with
  | Some l => ROk (mkPset es l ts)
  | None => RPanic
  end.

(* PrefixFileSet::delete_oldest: peek().unwrap(); remove_file(path)?; len -= file.len; pop() *)
Definition delete_oldest (v : variant) (m : mode) (s : sys) : res sys :=
  let '(fs, st) := s in
  let k := hd O (ties st) in
  let st0 := mkPset (entries st) (slen st) (tl (ties st)) in
  match pop v k (entries st) with
  | None => RPanic
  | Some (e, rest) =>
      match fs_remove (p_name e) fs with
      | None => RErr (fs, st0)
      | Some fs' =>
          match sub64 m (slen st) (p_len e) with
          | None => RPanic
          | Some l => ROk (fs', mkPset rest l (tl (ties st)))
          end
      end
  end.

(* PrefixFileSet::delete_older_than(now, duration): while the oldest is older than now-duration.
   Every iteration pops one entry, so [length entries] iterations always suffice (fuel). *)
Fixpoint older_loop (v : variant) (m : mode) (fuel : nat) (thr : N) (s : sys) : res sys :=
  match min_mtime (entries (snd s)) with
  | None => ROk s
  | Some mm =>
      if mm <? thr then
        match fuel with
        | O => ROk s
        | S f => bind (delete_oldest v m s) (older_loop v m f thr) (fun x => x)
        end
      else ROk s
  end.
Definition delete_older_than (v : variant) (m : mode) (now dur : N) (s : sys) : res sys :=
  older_loop v m (length (entries (snd s))) (now - dur) s.

(* PrefixFileSet::delete_oldest_while_over_max_len(max_len): while self.len > max_len.
   With an empty heap and len > max_len the unwrap in delete_oldest panics. *)
Fixpoint over_loop (v : variant) (m : mode) (fuel : nat) (max_len : N) (s : sys) : res sys :=
  if max_len <? slen (snd s) then
    match fuel with
    | O => RPanic
    | S f => bind (delete_oldest v m s) (over_loop v m f max_len) (fun x => x)
    end
  else ROk s.
Definition while_over (v : variant) (m : mode) (max_len : N) (s : sys) : res sys :=
  over_loop v m (S (length (entries (snd s)))) max_len s.

(* PrefixFileSet::push *)
Definition push (v : variant) (m : mode) (e : pfile) (st : pset) : res pset :=
  if v_push_counts v then
    match add64 m (slen st) (p_len e) with
    | Some l => ROk (mkPset (entries st ++ [e]) l (ties st))
    | None => RPanic
    end
  else ROk (mkPset (entries st ++ [e]) (slen st) (ties st)).

(* ---- operation language of the file-set correspondence check ---- *)
Inductive sop :=
| OMkFile (nm : bytes) (reg : bool) (size mtime : N)   (* the harness creates a directory entry *)
| ONew (ts : list nat)                                 (* PrefixFileSet::new(prefix) *)
| OPush (nm : bytes) (mtime len : N)
| ODelOldest
| ODelOlder (now dur : N)
| OWhileOver (max_len : N)
| OTies (ts : list nat).                               (* (model only) install a tie schedule *)

Definition set_step (v : variant) (m : mode) (prefix : bytes) (s : sys) (o : sop) : res sys :=
  let '(fs, st) := s in
  match o with
  | OMkFile nm reg size mtime =>
      ROk (fs ++ [mkFile (NPre nm) reg true mtime mtime [mkLine 0 size mtime]], st)
  | ONew ts => bind (set_new v m prefix fs ts) (fun st' => ROk (fs, st')) (fun st' => (fs, st'))
  | OPush nm mtime len =>
      bind (push v m (mkPfile (NPre nm) mtime len) st) (fun st' => ROk (fs, st')) (fun st' => (fs, st'))
  | ODelOldest => delete_oldest v m s
  | ODelOlder now dur => delete_older_than v m now dur s
  | OWhileOver mx => while_over v m mx s
  | OTies ts => ROk (fs, mkPset (entries st) (slen st) ts)
  end.

(* A tie schedule that makes the model pop, among equal minimal mtimes, first the files the
   implementation was seen to delete ([del]), smallest first.  Used only by the driver to line the
   model up with the implementation's unspecified heap order; any schedule is a legal behaviour. *)
Definition in_names (nm : fname) (l : list fname) : bool := existsb (fname_eqb nm) l.
Definition better (del : list fname) (a b : pfile) : bool :=
  (* is a strictly preferable to b? *)
  let da := in_names (p_name a) del in
  let db := in_names (p_name b) del in
  (da && negb db) || (Bool.eqb da db && (p_len a <? p_len b)).
Fixpoint best_idx (del : list fname) (cands : list pfile) (i : nat) (best : option (nat * pfile)) : nat :=
  match cands with
  | [] => match best with Some (j, _) => j | None => O end
  | c :: t =>
      match best with
      | None => best_idx del t (S i) (Some (i, c))
      | Some (j, b) => if better del c b then best_idx del t (S i) (Some (i, c))
                       else best_idx del t (S i) best
      end
  end.
Fixpoint plan_ties (del : list fname) (fuel : nat) (es : list pfile) : list nat :=
  match fuel with
  | O => []
  | S f =>
      match min_mtime es with
      | None => []
      | Some m =>
          let p := fun e => p_mtime e =? m in
          let k := best_idx del (filter p es) O None in
          match take_kth p k es with
          | Some (_, rest) => k :: plan_ties del f rest
          | None => []
          end
      end
  end.

(* ------------------------------------------------------------------ LogFileWriter *)
Record config := mkConfig {
  max_keep_age : option N;
  max_keep_bytes : N;
  max_write_age : N;
  max_write_bytes : N;
  ticks_per_sec : N
}.

Record wstate := mkW {
  w_fs : list file;     (* the directory; the current file is its LAST element (the writer holds
                           an open handle on the file it created last) *)
  w_set : pset;         (* closed files *)
  w_cur : fname;        (* LogFile.path *)
  w_len : N;            (* LogFile.len *)
  w_created : N         (* LogFile.created *)
}.

(* LogFile::create: the first n = 0,1,2.. whose name does not exist (create_new). Among
   [length fs + 1] candidates one is free, so the search never fails (proved). *)
Definition name_taken (fs : list file) (nm : fname) : bool :=
  existsb (fun f => f_alive f && fname_eqb (f_name f) nm) fs.
Fixpoint fresh_from (fs : list file) (sec : N) (fuel : nat) (n : N) : option N :=
  match fuel with
  | O => None
  | S f => if name_taken fs (NGen sec n) then fresh_from fs sec f (N.succ n) else Some n
  end.
Definition fresh_n (fs : list file) (sec : N) : option N := fresh_from fs sec (S (length fs)) 0.
Definition create (tps now : N) (fs : list file) : option (fname * list file) :=
  match fresh_n fs (now / tps) with
  | None => None
  | Some n => let nm := NGen (now / tps) n in
              Some (nm, fs ++ [mkFile nm true true now now []])
  end.

(* LogFile::write_all through the open handle: appends to the last file of the directory list *)
Fixpoint append_last (ln : line) (fs : list file) : list file :=
  match fs with
  | [] => []
  | [f] => [mkFile (f_name f) (f_reg f) (f_alive f) (l_time ln) (f_created f) (f_lines f ++ [ln])]
  | f :: t => f :: append_last ln t
  end.

Definition lift_set (w : wstate) (r : res sys) : res wstate :=
  match r with
  | ROk (fs, st) => ROk (mkW fs st (w_cur w) (w_len w) (w_created w))
  | RErr _ => RPanic            (* every Result in the thread body is unwrap()ped *)
  | RPanic => RPanic
  end.

(* start_writer_thread up to the spawn: scan, trim to max_keep_bytes, create, write the
   "Starting log writer" line [sl].  An Err here is returned to the caller (no thread). *)
Definition start (v : variant) (m : mode) (cfg : config) (prefix : bytes) (fs : list file)
           (ts : list nat) (sl : line) : res wstate :=
  match set_new v m prefix fs ts with
  | RPanic => RPanic
  | RErr st => RPanic
  | ROk st =>
      match while_over v m (max_keep_bytes cfg) (fs, st) with
      | RPanic => RPanic
      | RErr (fs1, st1) => RErr (mkW fs1 st1 (NPre []) 0 0)
      | ROk (fs1, st1) =>
          match create (ticks_per_sec cfg) (l_time sl) fs1 with
          | None => RPanic
          | Some (nm, fs2) =>
              match add64 m 0 (l_size sl) with
              | None => RPanic
              | Some l => ROk (mkW (append_last sl fs2) st1 nm l (l_time sl))
              end
          end
      end
  end.

(* the loop body, in three phases *)
Definition phase_rotate (v : variant) (m : mode) (cfg : config) (ev : line) (w : wstate) : res wstate :=
  let now := l_time ev in
  match add64 m (w_len w) (l_size ev) with
  | None => RPanic
  | Some s =>
      if (max_write_bytes cfg <? s) || (max_write_age cfg <? now - w_created w) then
        match push v m (mkPfile (w_cur w) now (w_len w)) (w_set w) with
        | ROk st =>
            match create (ticks_per_sec cfg) now (w_fs w) with
            | Some (nm, fs') => ROk (mkW fs' st nm 0 now)
            | None => RPanic
            end
        | _ => RPanic
        end
      else ROk w
  end.

Definition budget (v : variant) (m : mode) (cfg : config) (flen n : N) : option N :=
  if v_sat_budget v then Some (sat_sub (sat_sub (max_keep_bytes cfg) flen) n)
  else match sub64 m (max_keep_bytes cfg) flen with
       | Some x => sub64 m x n
       | None => None
       end.

Definition phase_delete (v : variant) (m : mode) (cfg : config) (ev : line) (w : wstate) : res wstate :=
  let now := l_time ev in
  let r1 := match max_keep_age cfg with
            | Some d => lift_set w (delete_older_than v m now d (w_fs w, w_set w))
            | None => ROk w
            end in
  bind r1 (fun w1 =>
    match budget v m cfg (w_len w1) (l_size ev) with
    | None => RPanic
    | Some b => lift_set w1 (while_over v m b (w_fs w1, w_set w1))
    end) (fun x => x).

Definition phase_append (m : mode) (ev : line) (w : wstate) : res wstate :=
  match add64 m (w_len w) (l_size ev) with
  | None => RPanic
  | Some l => ROk (mkW (append_last ev (w_fs w)) (w_set w) (w_cur w) l (w_created w))
  end.

Definition step (v : variant) (m : mode) (cfg : config) (w : wstate) (ev : line) : res wstate :=
  bind (phase_rotate v m cfg ev w) (fun w1 =>
  bind (phase_delete v m cfg ev w1) (fun w2 => phase_append m ev w2) (fun x => x)) (fun x => x).

Fixpoint run_events (v : variant) (m : mode) (cfg : config) (w : wstate) (evs : list line) : res wstate :=
  match evs with
  | [] => ROk w
  | ev :: t => bind (step v m cfg w ev) (fun w' => run_events v m cfg w' t) (fun x => x)
  end.

(* One run of the writer (start .. sender dropped) and a history of runs over the same prefix. *)
Record run := mkRun { r_cfg : config; r_ties : list nat; r_start : line; r_events : list line }.
Definition run_one (v : variant) (m : mode) (prefix : bytes) (fs : list file) (r : run) : res wstate :=
  bind (start v m (r_cfg r) prefix fs (r_ties r) (r_start r))
       (fun w => run_events v m (r_cfg r) w (r_events r)) (fun x => x).
Fixpoint run_history (v : variant) (m : mode) (prefix : bytes) (fs : list file) (rs : list run) : res (list file) :=
  match rs with
  | [] => ROk fs
  | r :: t =>
      match run_one v m prefix fs r with
      | ROk w => run_history v m prefix (w_fs w) t
      | RErr w => RErr (w_fs w)
      | RPanic => RPanic
      end
  end.
Definition run_lines (r : run) : list line := r_start r :: r_events r.
Definition history_lines (rs : list run) : list line := concat (map run_lines rs).

(* ------------------------------------------------------------------ observation and oracles *)
Definition line_eqb (a b : line) : bool := (l_id a =? l_id b) && (l_size a =? l_size b).
Fixpoint is_suffix (eq : line -> line -> bool) (s l : list line) : bool :=
  list_beq eq s l || match l with [] => false | _ :: t => is_suffix eq s t end.

Definition log_files (v : variant) (prefix : bytes) (fs : list file) : list file :=
  filter (is_log_file v prefix) fs.
Definition total_size (v : variant) (prefix : bytes) (fs : list file) : N :=
  sumN (map f_size (log_files v prefix fs)).

(* per-file size rule of the property text: a file exceeds max_write_bytes by at most one event,
   i.e. everything before its last line fits *)
Definition file_size_ok (mw : N) (lines : list line) : bool :=
  sumN (map l_size (removelast lines)) <=? mw.

(* The writer oracle = boolean form of the conclusions of every_event_once_in_order,
   file_bounds, total_bound (with max_keep >= max_write) for one observed directory state:
     [accepted]  the lines accepted so far by all runs, in order (start lines included),
     [obs]       the contents of the generated log files found on disk, in creation order,
     [old_total] bytes in surviving log files that existed before the first run,
     [mw mk]     max_write_bytes, max_keep_bytes of the running writer. *)
Definition start_id : N := 1000000000.
Definition is_start (l : line) : bool := l_id l =? start_id.
(* the bound of the property text: the keep size (the write size if that is larger) plus the
   last line written *)
Definition keep_bound (mw mk : N) (accepted : list line) : N :=
  match rev accepted with
  | [] => N.max mk mw
  | x :: _ => N.max mk mw + l_size x
  end.
Definition ow_suffix (accepted : list line) (obs : list (list line)) : bool :=
  is_suffix line_eqb (concat obs) accepted.
Definition ow_current_last (accepted : list line) (obs : list (list line)) : bool :=
  match rev obs, rev accepted with
  | cur :: _, lst :: _ => match rev cur with x :: _ => line_eqb x lst | [] => false end
  | _, _ => false
  end.
Definition ow_file_sizes (mw : N) (obs : list (list line)) : bool :=
  forallb (file_size_ok mw) obs
  && forallb (fun ls => negb (match ls with [] => true | _ => false end)) obs.
Definition ow_total (mw mk : N) (accepted : list line) (old_total : N) (obs : list (list line)) : bool :=
  old_total + sumN (map l_size (concat obs)) <=? keep_bound mw mk accepted.
Definition oracle_writer (mw mk : N) (accepted : list line) (old_total : N) (obs : list (list line)) : bool :=
  ow_suffix accepted obs && ow_current_last accepted obs && ow_file_sizes mw obs
  && ow_total mw mk accepted old_total obs.

(* environment action of the correspondence harness between two runs: the generated log files
   get distinct increasing mtimes, the newest one [gap] ticks before [now] *)
Definition is_gen (nm : fname) : bool := match nm with NGen _ _ => true | NPre _ => false end.
Definition set_mtime (f : file) (t : N) : file :=
  mkFile (f_name f) (f_reg f) (f_alive f) t (f_created f) (f_lines f).
Fixpoint restamp_from (t : N) (fs : list file) : list file :=
  match fs with
  | [] => []
  | f :: r => if f_alive f && is_gen (f_name f) then set_mtime f t :: restamp_from (t + 1) r
              else f :: restamp_from t r
  end.
Definition restamp (now gap : N) (fs : list file) : list file :=
  let k := N.of_nat (length (filter (fun f => f_alive f && is_gen (f_name f)) fs)) in
  restamp_from (now - gap - (k - 1)) fs.

(* The file-set oracle: one step of the set, seen from outside.
     [es]   the closed files the set holds according to the specification (name, mtime, length),
     [del]  the names that disappeared from the directory during the operation.
   delete_older_than: exactly the entries older than now-dur disappear;
   delete_oldest_while_over_max_len: what remains fits the budget, nothing that remains is older
   than anything deleted, and the last deletion was necessary;
   delete_oldest: one entry of minimal mtime; push / new: nothing disappears. *)
Definition keep_entries (del : list fname) (es : list pfile) : list pfile :=
  filter (fun e => negb (in_names (p_name e) del)) es.
Definition gone_entries (del : list fname) (es : list pfile) : list pfile :=
  filter (fun e => in_names (p_name e) del) es.
(* everything deleted comes before everything kept in the heap order of the variant: by mtime
   before D18, by (mtime, path) after D18 -- the "contiguous most-recent suffix" clause.  (Distinct
   files of one directory have distinct paths, so "before or equal" is "strictly before" there.) *)
Definition oldest_first (v : variant) (gone kept : list pfile) : bool :=
  forallb (fun g => forallb (fun k => heap_leb v g k) kept) gone.
Definition max_mtime (es : list pfile) : N := fold_right (fun e a => N.max (p_mtime e) a) 0 es.
Definition oracle_set_core (v : variant) (o : sop) (gone kept : list pfile) : bool :=
  match o with
  | ODelOlder now dur =>
      forallb (fun e => p_mtime e <? now - dur) gone && forallb (fun e => negb (p_mtime e <? now - dur)) kept
  | OWhileOver mx =>
      (sumN (map p_len kept) <=? mx) && oldest_first v gone kept &&
      match gone with
      | [] => true
      | _ => existsb (fun g => forallb (fun g' => heap_leb v g' g) gone
                               && (mx <? sumN (map p_len kept) + p_len g)) gone
      end
  | ODelOldest =>
      match gone with [g] => oldest_first v gone kept | _ => false end
  | _ => match gone with [] => true | _ => false end
  end.
Definition oracle_set_step (v : variant) (es : list pfile) (o : sop) (del : list fname) : bool :=
  let kept := keep_entries del es in
  let gone := gone_entries del es in
  (length gone =? length del)%nat && oracle_set_core v o gone kept.

(* specification-side tracking used by the driver between two oracle evaluations: the directory
   as the implementation left it, and the closed files the set must hold *)
Definition kill_names (del : list fname) (fs : list file) : list file :=
  map (fun f => if f_alive f && in_names (f_name f) del then kill f else f) fs.
Definition track_entries (v : variant) (prefix : bytes) (fs : list file) (es : list pfile)
           (o : sop) (del : list fname) : list pfile :=
  match o with
  | ONew _ => map entry_of (filter (is_log_file v prefix) fs)
  | OPush nm mt len => es ++ [mkPfile (NPre nm) mt len]
  | _ => keep_entries del es
  end.

(* writer oracle, clause for the log files that existed before the first run: those that
   disappeared come before those that are still there (same order clause as for the set) *)
Definition ow_old_order (v : variant) (olds : list pfile) (alive : list fname) : bool :=
  oldest_first v (filter (fun e => negb (in_names (p_name e) alive)) olds)
                 (filter (fun e => in_names (p_name e) alive) olds).

(* writer oracle, age clause (boolean form of c19_age_bound): after an event written at [now], no
   closed log file is older than the keep-age, the age counted from the time the set knows -- the
   mtime found at start-up for files of earlier runs, the rotation time for files of this run *)
Definition ow_age (keep_age : option N) (now : N) (closed : list pfile) : bool :=
  match keep_age with
  | None => true
  | Some d => forallb (fun e => now - d <=? p_mtime e) closed
  end.

(* ---- creation order (C19 "the surviving files are a contiguous most-recent suffix"), evaluated by the set-level
   correspondence on the implementation's own deletions.  [order] = the names in the order the files were created.
   A deletion respects it when no file survives that is older than a deleted one, older meaning: smaller mtime, or
   equal mtime and created earlier. ---- *)
Fixpoint index_of (nm : fname) (l : list fname) (i : nat) : nat :=
  match l with [] => i | x :: t => if fname_eqb nm x then i else index_of nm t (S i) end.
Definition older (order : list fname) (a b : pfile) : bool :=
  (p_mtime a <? p_mtime b) ||
  ((p_mtime a =? p_mtime b) && (index_of (p_name a) order 0 <? index_of (p_name b) order 0)%nat).
Definition oracle_set_creation (order : list fname) (before : list pfile) (del : list fname) : bool :=
  forallb (fun d => forallb (fun s => negb (older order s d))
                            (filter (fun e => negb (in_names (p_name e) del)) before))
          (filter (fun e => in_names (p_name e) del) before).
(* Known-finding class D20: the clause fails, and every offending pair (survivor older than a deleted file) has
   EQUAL mtimes -- the heap orders equally old files by path text, which is not their creation order when a
   counter suffix reaches two digits ("-10" < "-2") or is reused after a deletion. *)
Definition kf_c19_equal_mtime_name_order (order : list fname) (before : list pfile) (del : list fname) : bool :=
  negb (oracle_set_creation order before del) &&
  forallb (fun d => forallb (fun s => negb (older order s d) || (p_mtime s =? p_mtime d))
                            (filter (fun e => negb (in_names (p_name e) del)) before))
          (filter (fun e => in_names (p_name e) del) before).
