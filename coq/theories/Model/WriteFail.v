(* Model/WriteFail.v -- the write path of HttpConn (src/http_conn.rs:245-258 write_response,
   shutdown_write; the error path of handle_http_conn, lines 343-353) over the serializer model of
   Model/Response.v: write_state, the AsyncWriteCounter, the shutdown flag and the wire.
   (The full connection state machine is Model/Conn.v of C05; this file models just what C08 needs.)
   Definitions only; proofs are in Proofs/WriteFailP.v. *)
From SV Require Import Base.Bytes Model.Headers Model.IOSched Spec.ChunkDecode Model.Chunked Spec.RespParse Model.Response.

Inductive wstate := WsNone | WsResponse | WsShutdown.

Record conn := mkConn {
  c_ws : wstate;
  c_writer : writer;          (* the socket *)
  c_wire : bytes;             (* every byte the socket has accepted so far *)
  c_shutdowns : nat }.        (* calls of stream.shutdown(Write) *)

Inductive cerr := CeAlreadySent | CeDisconnected | CeWrite (e : werr).

(* HttpConn::shutdown_write *)
Definition shutdown_write (c : conn) : conn :=
  mkConn WsShutdown (c_writer c) (c_wire c) (S (c_shutdowns c)).

Definition is_1xx (code : N) : bool := code / 100 =? 1.
Definition closes (code : N) : bool := (500 <=? code) && (code <=? 599).     (* (500..=599).contains(&code) *)

Section Conn.
  Variable reason : N -> bytes.
  Variable ct_text : nat -> bytes.

  (* HttpConn::write_response; the AsyncWriteCounter's count is the number of accepted bytes *)
  Definition conn_write_response (c : conn) (r : response) : option cerr * conn :=
    match c_ws c with
    | WsNone => (Some CeAlreadySent, c)
    | WsShutdown => (Some CeDisconnected, c)
    | WsResponse =>
        let close := closes (r_code r) in
        let '(res, acc, w') := write_http_response reason ct_text r close (c_writer c) in
        let num_bytes_written := N.of_nat (length acc) in
        let c1 := mkConn (c_ws c) w' (c_wire c ++ acc) (c_shutdowns c) in
        match res with
        | None =>
            let c2 := if is_1xx (r_code r) then c1
                      else mkConn WsNone (c_writer c1) (c_wire c1) (c_shutdowns c1) in
            (None, if close then shutdown_write c2 else c2)
        | Some e =>
            (Some (CeWrite e), if 0 <? num_bytes_written then shutdown_write c1 else c1)
        end
    end.

  (* the match on the result in handle_http_conn: Ok => go on; Err(Disconnected) => return;
     Err(e) => write_response(&e.into()) (the 500 answer [r500]), shutdown_write, return.
     A failed socket write surfaces as Disconnected, a body-source fault as another error. *)
  Definition is_disconnected (e : cerr) : bool :=
    match e with CeDisconnected => true | CeWrite EDisconnected => true | _ => false end.
  Definition conn_after_result (c : conn) (res : option cerr) (r500 : response) : option (option cerr) * conn :=
    match res with
    | None => (None, c)
    | Some e => if is_disconnected e then (None, c)
                else let '(res2, c2) := conn_write_response c r500 in (Some res2, shutdown_write c2)
    end.
  Definition conn_exchange (c : conn) (r r500 : response) : option cerr * option (option cerr) * conn :=
    let '(res, c1) := conn_write_response c r in
    let '(res2, c2) := conn_after_result c1 res r500 in
    (res, res2, c2).

  (* any further write_response calls *)
  Fixpoint conn_write_many (c : conn) (rs : list response) : conn :=
    match rs with
    | [] => c
    | r :: t => conn_write_many (snd (conn_write_response c r)) t
    end.

  (* ---- oracles ---- *)
  (* the body source can deliver the declared body: Ok(()) is acceptable only then *)
  Definition body_deliverable (b : body) : bool :=
    match b with
    | BKnown n open_ok src => (n =? 0) || (open_ok && (n <=? N.of_nat (length (r_data src))))
    | BStream src => negb (snd (delivered piece_max src))
    end.
  (* serializer level, ANY writer (failing at any offset): *)
  Definition oracle_c08_ser (r : response) (close : bool) (res : option werr) (wire : bytes) : bool :=
    if negb (r_normal r) then option_beq werr_beq res (Some EUnwritable) && is_empty wire else
    if collides r then (match res with Some e => is_dup e | None => false end) && is_empty wire else
    starts_with wire (full_wire reason ct_text r close) &&
    match res with
    | None => beq wire (full_wire reason ct_text r close) && body_deliverable (r_body r)
    | Some e => negb (is_dup e)
    end.

  Definition wstate_beq (a b : wstate) : bool :=
    match a, b with WsNone, WsNone | WsResponse, WsResponse | WsShutdown, WsShutdown => true | _, _ => false end.

  (* connection level: [res1], [st1] = result and write_state of write_response(r) on a connection
     that owes a response; [sent] = everything the client received until EOF after the error path
     ran with the 500 answer [r500]:
       Ok                => the client got exactly the serialisation of r, and the body source really
                            held the declared body (a short or missing source must not be reported Ok);
       Err, state Shutdown => some bytes were sent: they are a prefix of the serialisation of r and
                            nothing follows them;
       Err, state still Response => nothing of r was sent; what the client got is a prefix of the
                            one 500 response (all of it when that write succeeded), or nothing
                            when the error was a disconnect. *)
  Definition oracle_c08_conn (r r500 : response) (res1 : option cerr) (st1 : wstate)
             (res2 : option (option cerr)) (sent : bytes) : bool :=
    let full := full_wire reason ct_text r (closes (r_code r)) in
    let full500 := full_wire reason ct_text r500 (closes (r_code r500)) in
    match res1 with
    | None => beq sent full && body_deliverable (r_body r) &&
              wstate_beq st1 (if closes (r_code r) then WsShutdown else if is_1xx (r_code r) then WsResponse else WsNone)
    | Some e =>
        match st1 with
        | WsShutdown => negb (is_empty sent) && starts_with sent full
        | WsResponse =>
            match res2 with
            | None => is_empty sent
            | Some None => beq sent full500
            | Some (Some _) => starts_with sent full500
            end
        | WsNone => false
        end
    end.

  (* ---- a connection that has already carried traffic ----
     HttpConn::read_request on an idle connection sets write_state = Response; after a 1xx answer the
     state is still Response.  [conn_prefix] serves the earlier exchanges of a kept-alive connection
     (complete responses and/or the 100-continue of the current exchange). *)
  Definition conn_next_request (c : conn) : conn :=
    match c_ws c with
    | WsNone => mkConn WsResponse (c_writer c) (c_wire c) (c_shutdowns c)
    | _ => c
    end.
  Fixpoint conn_prefix (c : conn) (pre : list response) : conn :=
    match pre with
    | [] => conn_next_request c
    | p :: t => conn_prefix (snd (conn_write_response (conn_next_request c) p)) t
    end.
  (* earlier responses, then the response under test, then the error path *)
  Definition conn_session (c : conn) (pre : list response) (r r500 : response)
    : option cerr * wstate * option (option cerr) * conn :=
    let c1 := conn_prefix c pre in
    let st1 := c_ws (snd (conn_write_response c1 r)) in
    let '(res, res2, c2) := conn_exchange c1 r r500 in
    (res, st1, res2, c2).

  (* what the earlier responses put on the wire *)
  Definition prior_wire (pre : list response) : bytes :=
    concat (map (fun p => full_wire reason ct_text p (closes (r_code p))) pre).
  Definition prefix_resp_ok (p : response) : bool :=
    r_normal p && negb (collides p) && body_sound (r_body p) && negb (closes (r_code p)).

  (* connection-level oracle with earlier traffic: the client first got exactly the earlier
     responses; what follows obeys oracle_c08_conn -- in particular a response refused with zero
     bytes still leaves room for the one whole 500, however many bytes the connection carried before *)
  Definition oracle_c08_session (pre : list response) (r r500 : response) (res1 : option cerr) (st1 : wstate)
             (res2 : option (option cerr)) (sent : bytes) : bool :=
    let prior := prior_wire pre in
    starts_with prior sent &&
    oracle_c08_conn r r500 res1 st1 res2 (skipn (length prior) sent).
End Conn.
