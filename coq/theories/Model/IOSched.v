(* Model/IOSched.v -- scripted byte sources and sinks (DESIGN section 3, "network output"), shared by
   the models of C06, C07 and C08.  Definitions only; lemmas are in Proofs/IOSchedP.v.

   A READER is the data it will deliver plus a schedule: the k-th [read] hands out at most
   [k] bytes (RGive k; RGive 0 is a premature Ok(0)) or fails (RFail).  When the schedule is used up
   the reader hands out as much as the caller's buffer takes (like an in-memory cursor), and
   Ok(0) at the end of the data.

   A WRITER is a schedule of [poll_write] answers -- WAccept k: accept at most k bytes (k = 0 is
   Ok(0)); WFail: Err -- plus an optional byte budget: once that many bytes have been accepted in
   total every further [poll_write] fails ("the socket fails after n bytes"), plus the answer of
   [flush].  When the schedule is used up the writer accepts everything it is offered (subject to
   the budget).  Theorems quantify over all readers and writers. *)
From SV Require Import Base.Bytes.

Inductive rop := RGive (k : nat) | RFail.
Record reader := mkReader { r_data : bytes; r_sched : list rop }.
Inductive rres := RdBytes (p : bytes) (r' : reader) | RdErr (r' : reader).

(* AsyncRead::read into a buffer of [cap] bytes *)
Definition rd_read (cap : nat) (r : reader) : rres :=
  match r_sched r with
  | [] => RdBytes (firstn cap (r_data r)) (mkReader (skipn cap (r_data r)) [])
  | RGive k :: s => let m := Nat.min k cap in
                    RdBytes (firstn m (r_data r)) (mkReader (skipn m (r_data r)) s)
  | RFail :: s => RdErr (mkReader (r_data r) s)
  end.
(* the loops below run at most this many reads *)
Definition rd_fuel (r : reader) : nat := S (length (r_data r) + length (r_sched r)).

Inductive wop := WAccept (k : nat) | WFail.
Record writer := mkWriter { w_sched : list wop; w_budget : option nat; w_flush_ok : bool }.

Definition budget_exhausted (b : option nat) : bool := match b with Some O => true | _ => false end.
Definition budget_min (k : nat) (b : option nat) : nat := match b with Some x => Nat.min k x | None => k end.
Definition budget_sub (b : option nat) (n : nat) : option nat :=
  match b with Some x => Some (x - n)%nat | None => None end.

(* futures_lite write_all:  while !buf.is_empty() { n = poll_write(buf)?; buf = &buf[n..];
                                                    if n == 0 { return Err(WriteZero) } }
   returns (bytes accepted by the sink, sink afterwards, Ok?) *)
Fixpoint write_all_sched (buf : bytes) (sched : list wop) (budget : option nat) (fl : bool)
  : bytes * writer * bool :=
  match buf with
  | [] => ([], mkWriter sched budget fl, true)
  | _ :: _ =>
      if budget_exhausted budget then
        ([], mkWriter sched budget fl, false)
      else
      match sched with
      | [] =>
          match budget with
          | None => (buf, mkWriter [] None fl, true)
          | Some b =>
              if (length buf <=? b)%nat then (buf, mkWriter [] (Some (b - length buf)%nat) fl, true)
              else (firstn b buf, mkWriter [] (Some O) fl, false)
          end
      | WFail :: s => ([], mkWriter s budget fl, false)
      | WAccept O :: s => ([], mkWriter s budget fl, false)
      | WAccept k :: s =>
          let m := budget_min k budget in
          let a := firstn m buf in
          let '(a', w', ok) := write_all_sched (skipn m buf) s (budget_sub budget (length a)) fl in
          (a ++ a', w', ok)
      end
  end.
Definition write_all (buf : bytes) (w : writer) : bytes * writer * bool :=
  write_all_sched buf (w_sched w) (w_budget w) (w_flush_ok w).

(* a writer that never fails: positive acceptance counts, no budget, flush succeeds *)
Definition wop_ok (o : wop) : bool := match o with WAccept (S _) => true | _ => false end.
Definition writer_errfree (w : writer) : bool :=
  forallb wop_ok (w_sched w) && (match w_budget w with None => true | Some _ => false end) && w_flush_ok w.
Definition rop_ok (o : rop) : bool := match o with RGive (S _) => true | _ => false end.
(* a reader that never fails and never answers 0 before the end of its data *)
Definition reader_errfree (r : reader) : bool := forallb rop_ok (r_sched r).

Definition writer_all : writer := mkWriter [] None true.
