(* Model/RustStr.v -- the Rust std string functions used by src/request.rs and src/content_type.rs,
   on ASCII text given as byte lists.  Definitions only; lemmas are in Proofs/RustStrP.v.
   (Owned by the C03 builder; candidate for promotion to Base/RustStd.v.) *)
From SV Require Import Base.Bytes.

(* char::is_whitespace restricted to ASCII: U+0009..U+000D and U+0020.  (Header values are
   AsciiStrings, so the non-ASCII White_Space code points cannot occur.) *)
Definition is_rust_ws (b : N) : bool := in_range 9 13 b || (b =? 32).

Fixpoint drop_ws (s : bytes) : bytes :=
  match s with
  | [] => []
  | x :: t => if is_rust_ws x then drop_ws t else s
  end.

(* str::trim *)
Definition trim (s : bytes) : bytes := rev (drop_ws (rev (drop_ws s))).

(* str::split(c) for a single-byte separator: always at least one piece. *)
Fixpoint split (c : N) (s : bytes) : list bytes :=
  match s with
  | [] => [[]]
  | x :: t =>
      if x =? c then [] :: split c t
      else match split c t with
           | p :: ps => (x :: p) :: ps
           | [] => [[x]]
           end
  end.

Definition nonempty (s : bytes) : bool := match s with [] => false | _ => true end.

(* s.split(c).map(str::trim).filter(|s| !s.is_empty()) collected *)
Definition split_trim_nonempty (c : N) (s : bytes) : list bytes :=
  filter nonempty (map trim (split c s)).

(* str::splitn(2, c): (first piece, Some rest) when c occurs, (s, None) otherwise *)
Fixpoint splitn2 (c : N) (s : bytes) : bytes * option bytes :=
  match s with
  | [] => ([], None)
  | x :: t =>
      if x =? c then ([], Some t)
      else let '(a, b) := splitn2 c t in (x :: a, b)
  end.

Definition two64 : N := 18446744073709551616.

(* digits (1*DIGIT) to u64 with checked arithmetic: overflow is an error.  The partial sums are
   monotone, so "some step overflows" is the same as "the value is >= 2^64". *)
Definition u64_of_digits (s : bytes) : option N :=
  match undec s with
  | Some n => if n <? two64 then Some n else None
  | None => None
  end.

(* <u64 as FromStr>::from_str: empty -> Err; a lone sign -> Err; one leading '+' is skipped;
   '-' is an invalid digit for an unsigned type. *)
Definition u64_from_str (s : bytes) : option N :=
  match s with
  | [] => None
  | 43 :: [] => None
  | 43 :: t => u64_of_digits t
  | _ => u64_of_digits s
  end.

(* Vec::pop on a vector: the last element *)
Definition vec_pop {A} (v : list A) : option A :=
  match rev v with [] => None | x :: _ => Some x end.

(* lexicographic byte order (Ord for str / String) *)
Fixpoint bcompare (a b : bytes) : comparison :=
  match a, b with
  | [], [] => Eq
  | [], _ :: _ => Lt
  | _ :: _, [] => Gt
  | x :: a', y :: b' =>
      match x ?= y with
      | Eq => bcompare a' b'
      | c => c
      end
  end.

(* N-indexed take / skip (lengths may be as large as 2^64-1; never convert them to nat) *)
Fixpoint ntake (n : N) (l : bytes) : bytes :=
  match l with
  | [] => []
  | x :: t => if n =? 0 then [] else x :: ntake (N.pred n) t
  end.
Fixpoint nskip (n : N) (l : bytes) : bytes :=
  match l with
  | [] => []
  | x :: t => if n =? 0 then l else nskip (N.pred n) t
  end.
Definition nlen (l : bytes) : N := N.of_nat (length l).
