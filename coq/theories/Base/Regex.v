(* Base/Regex.v -- a small regular-expression AST over bytes and its standard denotation.
   Used to give the two `regex!` literals of src/head.rs (re-read from the source on every run by
   props/srcparams.py, Generated/SourceParams.v) a meaning inside Coq: safe_regex's `match_slices`
   succeeds iff the WHOLE input is in the language of the pattern.  Definitions only. *)
From Coq Require Import List NArith Bool.
Import ListNotations.
Open Scope N_scope.

Inductive regex :=
| REps
| RChar (c : N)                            (* a literal byte *)
| RAny                                     (* `.` : any byte *)
| RClass (neg : bool) (rs : list (N * N))  (* [..] / [^..] : inclusive ranges *)
| RSeq (a b : regex)
| RStar (a : regex)
| RPlus (a : regex)
| RGroup (a : regex).                      (* capturing group: no effect on the language *)

Definition in_ranges (rs : list (N * N)) (b : N) : bool :=
  existsb (fun r => (fst r <=? b) && (b <=? snd r)) rs.
Definition class_mem (neg : bool) (rs : list (N * N)) (b : N) : bool :=
  if neg then negb (in_ranges rs b) else in_ranges rs b.

Inductive lang : regex -> list N -> Prop :=
| L_eps : lang REps []
| L_char c : lang (RChar c) [c]
| L_any b : lang RAny [b]
| L_class neg rs b : class_mem neg rs b = true -> lang (RClass neg rs) [b]
| L_seq a b s t : lang a s -> lang b t -> lang (RSeq a b) (s ++ t)
| L_star_nil a : lang (RStar a) []
| L_star_cons a s t : lang a s -> lang (RStar a) t -> lang (RStar a) (s ++ t)
| L_plus a s t : lang a s -> lang (RStar a) t -> lang (RPlus a) (s ++ t)
| L_group a s : lang a s -> lang (RGroup a) s.
