(* Base/IO.v -- network input as a byte stream plus a read schedule (DESIGN section 3).
   Definitions only.

   An [instream] is what a peer will deliver before the connection ends:
     in_bytes : the bytes still to be delivered,
     in_sched : how many bytes the k-th successful [read] may return at most (an entry 0 is
                treated as 1; when the schedule is used up every further read may return 1 byte),
     in_err   : how the stream ends once [in_bytes] is exhausted: false = EOF (read returns Ok(0)),
                true = an io::Error.
   [next_read want s] is one call of AsyncRead::read on a destination slice of [want] >= 1 bytes:
   it returns min(want, max(1, next schedule entry), remaining) bytes; the empty list means
   "EOF or error" (the callers modelled so far treat the two alike; [in_err] tells them apart). *)
From SV Require Import Base.Bytes.

Record instream := mk_in { in_bytes : bytes; in_sched : list nat; in_err : bool }.

Definition sched_next (sched : list nat) : nat :=
  match sched with [] => 1%nat | k :: _ => Nat.max 1 k end.

Definition read_len (want : nat) (s : instream) : nat :=
  Nat.min want (Nat.min (sched_next (in_sched s)) (length (in_bytes s))).

Definition next_read (want : nat) (s : instream) : bytes * instream :=
  let k := read_len want s in
  (firstn k (in_bytes s), mk_in (skipn k (in_bytes s)) (tl (in_sched s)) (in_err s)).
