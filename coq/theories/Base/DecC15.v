(* Base/DecC15.v -- facts about Base.Bytes.dec / undec (decimal rendering and reading of N):
   dec n is a non-empty string of digits and undec reads it back, for every n (unbounded).
   Written for C15 (Max-Age) and C16; candidates for promotion into Base/BytesP.v. *)
From Coq Require Import ZArith.
From SV Require Import Base.Bytes.
Open Scope N_scope.

(* lia does not see through N.modulo / N.div here: name quotient and remainder first *)
Ltac name_divmod n q r :=
  pose proof (N.div_mod n 10 ltac:(discriminate));
  pose proof (N.mod_upper_bound n 10 ltac:(discriminate));
  set (q := n / 10) in *; set (r := n mod 10) in *; clearbody q r.

Lemma is_digit_mod10 n : is_digit (48 + n mod 10) = true.
Proof.
  unfold is_digit, in_range. name_divmod n q r.
  apply andb_true_intro. split; apply N.leb_le; lia.
Qed.

Lemma dec_digits_fuel_digits fuel : forall n acc,
  forallb is_digit acc = true -> forallb is_digit (dec_digits_fuel fuel n acc) = true.
Proof.
  induction fuel as [|f IH]; intros n acc Hacc; cbn [dec_digits_fuel]; [exact Hacc|].
  assert (H1 : forallb is_digit ((48 + n mod 10) :: acc) = true)
    by (cbn [forallb]; now rewrite is_digit_mod10, Hacc).
  destruct (n <? 10); [exact H1|]. now apply IH.
Qed.

Lemma dec_all_digits n : forallb is_digit (dec n) = true.
Proof. unfold dec. now apply dec_digits_fuel_digits. Qed.

Lemma dec_digits_fuel_nonempty fuel : forall n acc, dec_digits_fuel (S fuel) n acc <> [].
Proof.
  induction fuel as [|f IH]; intros n acc.
  - cbn [dec_digits_fuel]. destruct (n <? 10); discriminate.
  - change (dec_digits_fuel (S (S f)) n acc) with
      (let acc' := (48 + n mod 10) :: acc in if n <? 10 then acc' else dec_digits_fuel (S f) (n / 10) acc').
    cbv zeta. destruct (n <? 10); [discriminate|apply IH].
Qed.

Lemma dec_nonempty n : dec n <> [].
Proof. unfold dec. apply dec_digits_fuel_nonempty. Qed.

(* reading the digits produced for n in front of acc, starting from k, is reading acc from k*10^d + n *)
Lemma undec_acc_dec_fuel fuel : forall n acc, n < 2 ^ N.of_nat fuel ->
  exists p, n < p /\ 0 < p /\ forall k, undec_acc k (dec_digits_fuel fuel n acc) = undec_acc (k * p + n) acc.
Proof.
  induction fuel as [|f IH]; intros n acc Hn.
  - cbn in Hn. assert (n = 0) as -> by lia. exists 1. split; [lia|]. split; [lia|]. intros k0. cbn [dec_digits_fuel].
    f_equal. lia.
  - cbn [dec_digits_fuel]. destruct (n <? 10) eqn:E.
    + apply N.ltb_lt in E. exists 10. split; [lia|]. split; [lia|]. intros k0. cbn [undec_acc]. rewrite is_digit_mod10.
      f_equal. rewrite N.mod_small by exact E. lia.
    + apply N.ltb_ge in E. assert (Hn' : n / 10 < 2 ^ N.of_nat f).
      { rewrite Nat2N.inj_succ, N.pow_succ_r' in Hn.
        apply N.div_lt_upper_bound; [discriminate|]. lia. }
      destruct (IH (n / 10) ((48 + n mod 10) :: acc) Hn') as (p & Hp & Hp0 & Hrd).
      exists (10 * p). split; [|split; [lia|]].
      * clear Hrd. name_divmod n q r. lia.
      * intros k0. rewrite Hrd. cbn [undec_acc]. rewrite is_digit_mod10. f_equal.
        clear Hrd. name_divmod n q r. lia.
Qed.

Lemma undec_dec n : undec (dec n) = Some n.
Proof.
  unfold undec. pose proof (dec_nonempty n) as Hne. destruct (dec n) eqn:E; [congruence|]. rewrite <- E.
  unfold dec.
  assert (Hn : n < 2 ^ N.of_nat (S (N.to_nat (N.log2 n)))).
  { rewrite Nat2N.inj_succ, N2Nat.id. clear. destruct n as [|p].
    - reflexivity.
    - pose proof (N.log2_spec (Npos p) eq_refl) as [_ H]. exact H. }
  destruct (undec_acc_dec_fuel _ n [] Hn) as (p & _ & _ & H). rewrite H. cbn [undec_acc]. f_equal; try lia.
Qed.
