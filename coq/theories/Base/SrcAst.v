(* Base/SrcAst.v -- small ASTs for straight-line source code that props/srcparams.py translates from the
   repository on every run (Generated/SourceParams.v).  Definitions only; the meaning of each AST is given where
   it is tied to a model (Tie/*.v). *)
From Coq Require Import List NArith.
Import ListNotations.

(* impl Display for Cookie (src/cookie.rs): a sequence of guarded `write!`s *)
Inductive cookie_guard := GDomainNonEmpty | GExpiresSet | GHttpOnly | GMaxAgePositive | GPathNonEmpty | GSecure.
Inductive cookie_arg := ANone | ADomain | AExpiresIso | AMaxAgeSecs | APath.
Inductive cookie_seg :=
| SegNameValue (sep : list N)                                        (* write!(f, "{}<sep>{}", name, value) *)
| SegIf (g : cookie_guard) (lit : list N) (a : cookie_arg)            (* if g { write!(f, "<lit>{}", a) } *)
| SegSameSite (strict lax none : list N).                            (* match self.same_site { .. => write!(f, lit) } *)
