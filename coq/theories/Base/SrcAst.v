(* Base/SrcAst.v -- small ASTs for straight-line source code that props/srcparams.py translates from the
   repository on every run (Generated/SourceParams.v).  Definitions only; the meaning of each AST is given where
   it is tied to a model (Tie/*.v). *)
From Coq Require Import List NArith.
Import ListNotations.

(* impl Display for Cookie (src/cookie.rs): a sequence of guarded `write!`s *)
Inductive cookie_guard := GDomainNonEmpty | GExpiresSet | GHttpOnly | GMaxAgePositive | GPathNonEmpty | GSecure.
Inductive cookie_arg := ANone | ADomain | AExpiresIso | AMaxAgeSecs | APath.
Inductive cookie_seg :=
| SegNameValue (sep : list N)                                        (* write!(f, "{}<sep>{}", name, value) *)
| SegIf (g : cookie_guard) (lit : list N) (a : cookie_arg)            (* if g { write!(f, "<lit>{}", a) } *)
| SegSameSite (strict lax none : list N).                            (* match self.same_site { .. => write!(f, lit) } *)

(* read_http_request (src/request.rs): the two decision tables *)
(* match (iter.next(), iter.next(), iter.next()) { (Some("gzip"), Some("chunked"), None) => (true, true), ... } *)
Definition te_arm := (option (list N) * option (list N) * option (list N) * (bool * bool))%type.
(* match (chunked, &content_length, head.method.as_str()) { ... } *)
Inductive clen_pat := CLAny | CLSomeLit (n : N) | CLSomeVar | CLNone.
Inductive body_guard := BGNone | BGExpectOrGzip.
Inductive body_result := BREmpty | BRUnknown | BRKnownVar.
Record body_arm := mk_body_arm {
  ba_chunked : option bool;            (* None = `_` *)
  ba_clen : clen_pat;
  ba_methods : option (list (list N)); (* None = `_`; Some [..] = "POST" | "PUT" *)
  ba_guard : body_guard;
  ba_result : body_result }.

(* HttpConn (src/http_conn.rs): the leading state guards of a method, in source order.
   A guard is `match self.<field> { Variant => {} | Variant => return Err(HttpError::X), ... }`. *)
Inductive state_field := FWriteState | FReadState.
Inductive state_variant := VNone | VResponse | VShutdown | VHead | VBody.
(* (field, arms): an arm maps a variant to the name of the error returned, or None for `=> {}` *)
Definition guard_table := (state_field * list (state_variant * option (list N)))%type.
