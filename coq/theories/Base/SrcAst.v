(* Base/SrcAst.v -- small ASTs for straight-line source code that props/srcparams.py translates from the
   repository on every run (Generated/SourceParams.v).  Definitions only; the meaning of each AST is given where
   it is tied to a model (Tie/*.v). *)
From Coq Require Import List NArith.
Import ListNotations.

(* impl Display for Cookie (src/cookie.rs): a sequence of guarded `write!`s *)
Inductive cookie_guard := GDomainNonEmpty | GExpiresSet | GHttpOnly | GMaxAgePositive | GPathNonEmpty | GSecure.
Inductive cookie_arg := ANone | ADomain | AExpiresIso | AMaxAgeSecs | APath.
Inductive cookie_seg :=
| SegNameValue (sep : list N)                                        (* write!(f, "{}<sep>{}", name, value) *)
| SegIf (g : cookie_guard) (lit : list N) (a : cookie_arg)            (* if g { write!(f, "<lit>{}", a) } *)
| SegSameSite (strict lax none : list N).                            (* match self.same_site { .. => write!(f, lit) } *)

(* read_http_request (src/request.rs): the two decision tables *)
(* match (iter.next(), iter.next(), iter.next()) { (Some("gzip"), Some("chunked"), None) => (true, true), ... } *)
Definition te_arm := (option (list N) * option (list N) * option (list N) * (bool * bool))%type.
(* match (chunked, &content_length, head.method.as_str()) { ... } *)
Inductive clen_pat := CLAny | CLSomeLit (n : N) | CLSomeVar | CLNone.
Inductive body_guard := BGNone | BGExpectOrGzip.
Inductive body_result := BREmpty | BRUnknown | BRKnownVar.
Record body_arm := mk_body_arm {
  ba_chunked : option bool;            (* None = `_` *)
  ba_clen : clen_pat;
  ba_methods : option (list (list N)); (* None = `_`; Some [..] = "POST" | "PUT" *)
  ba_guard : body_guard;
  ba_result : body_result }.

(* HttpConn (src/http_conn.rs): the leading state guards of a method, in source order.
   A guard is `match self.<field> { Variant => {} | Variant => return Err(HttpError::X), ... }`. *)
Inductive state_field := FWriteState | FReadState.
Inductive state_variant := VNone | VResponse | VShutdown | VHead | VBody.
(* (field, arms): an arm maps a variant to the name of the error returned, or None for `=> {}` *)
Definition guard_table := (state_field * list (state_variant * option (list N)))%type.

(* write_json_string (src/log/tag_value.rs): the arms of `match c`, in source order *)
Inductive json_arm :=
| JLit (c : N) (out : list N)              (* 'c' => f.write_str("out") *)
| JBelowHex4 (bound : N) (pre : list N)    (* c if u32::from(c) < bound => write!(f, "pre{:04x}", u32::from(c)) *)
| JSelf.                                   (* c => write!(f, "{c}") *)
(* impl Display for TagValue: (variant name, what its arm does); a guarded arm precedes the plain arm *)
Inductive tv_action :=
| TVJsonString                                   (* write_json_string(f, x) *)
| TVDisplay                                      (* Display::fmt(&x, f) *)
| TVJsonStringIfEndsWith (sfx : list (list N))   (* if x.ends_with(a) || x.ends_with(b) => write_json_string(f, x) *)
| TVLit (t : list N).                            (* write!(f, "t") *)
Definition tv_arm := (list N * tv_action)%type.

(* a format string with inline / named arguments: literal text, {name}, {name:0w} *)
Inductive fmt_seg := FLit (t : list N) | FArg (name : list N) (width : N).

(* the body of the log file writer's loop (src/log/log_file_writer.rs), statement by statement *)
Inductive wexpr :=
| WFileLen | WBufLen | WMaxWriteBytes | WMaxKeepBytes | WMaxWriteAge
| WFileAgeNow                      (* file.age(now): now - created, zero when negative *)
| WAdd (a b : wexpr)               (* a + b  (u64: overflow panics in debug builds, wraps in release) *)
| WSatSub (a b : wexpr).           (* a.saturating_sub(b) *)
Inductive wcond := WGt (a b : wexpr) | WOr (a b : wcond).
Inductive push_field := PFPathFilePath | PFMtimeNow | PFLenFileLen.
Inductive wstmt :=
| WSRender                                        (* event.write_jsonl(&mut buffer).unwrap() *)
| WSNow                                           (* let now = SystemTime::now() *)
| WSRotateIf (c : wcond) (fields : list push_field) (* if c { file_set.push(PrefixFile{fields}); file = LogFile::create(..).unwrap() } *)
| WSDeleteOlderIfKeepAge                          (* if let Some(d) = self.max_keep_age { file_set.delete_older_than(now, d).unwrap() } *)
| WSDeleteWhileOver (e : wexpr)                   (* file_set.delete_oldest_while_over_max_len(e).unwrap() *)
| WSWriteBuffer                                   (* file.write_all(&buffer).unwrap()   (LogFile::write_all: len += buffer.len()) *)
| WSClearBuffer.                                  (* buffer.clear() *)

(* PrefixFileSet (src/log/prefix_file_set.rs) *)
Inductive pf_field := PFmtime | PFpath | PFlen.
(* delete_oldest, statement by statement *)
Inductive dstmt :=
| DPeekUnwrap          (* let file = self.files.peek().unwrap() *)
| DRemoveFileOrErr     (* remove_file(&file.path).map_err(..)? *)
| DLenSubFileLen       (* self.len -= file.len *)
| DPop                 (* self.files.pop() *)
| DOk.                 (* Ok(()) *)
Inductive loop_cmp := LcLt | LcLe | LcGt | LcGe.
Inductive pstmt := PLenAddFileLen | PHeapPush.

(* TokenSet / Token (src/token_set.rs) *)
Inductive ts_new_stmt :=
| TNChannelOfSize        (* let (sender, receiver) = sync_channel(size) *)
| TNFillTrySendUnwrap    (* for _ in 0..size { sender.try_send(()).unwrap(); } *)
| TNSelf.                (* Self(sender, receiver) *)
Inductive ts_drop_stmt := TDTrySendIgnore.        (* let _ = self.0.try_send(()) *)
Inductive ts_take_stmt := TTRecvThenCloneSender.  (* receive one unit (blocking / async / with time-out), then Token(sender.clone()) *)

(* HttpConn::write_response (src/http_conn.rs), the statements of the `if result.is_ok() { .. }` branch *)
Inductive wr_after :=
| WASetNoneUnless1xx     (* if !response.is_1xx() { self.write_state = WriteState::None; } *)
| WAShutdownIfClose.     (* if close { self.shutdown_write(); } *)

(* handle_http_conn_once / handle_http_conn (src/http_conn.rs), statement by statement *)
Inductive once_err := OEDisconnected | OEAlreadyGotBody | OECacheDirNotConfigured | OEOther.
Inductive kind_pat := KPNormal | KPDrop | KPGetBody.      (* ResponseKind::Normal | DropConnection | GetBodyAndReprocess(_) *)
Inductive kind_act :=
| KAKeepFirst                   (* first_response = Some(response) *)
| KANothing                     (* {} *)
| KAReturnErr (e : once_err)    (* return Err(HttpError::e) *)
| KAReadToFile (e : once_err).  (* let cache_dir = opt_cache_dir.ok_or(HttpError::e)?;
                                   req.body = http_conn.read_body_to_file(cache_dir, max_len).await?; *)
Inductive body_pat :=
| BPKnownLe                     (* RequestBody::PendingKnown(len) if *len <= (small_body_len as u64) *)
| BPKnownLt                     (* ... if *len < ... *)
| BPPending                     (* RequestBody::PendingKnown(..) | RequestBody::PendingUnknown *)
| BPWild.                       (* _ *)
Inductive body_act :=
| BAReadToVec                   (* req.body = http_conn.read_body_to_vec().await?; *)
| BAAskHandler (arms : list (kind_pat * kind_act))
                                (* let response = request_handler.clone()(req.clone()).await; match response.kind { arms } *)
| BANothing.
Inductive once_stmt :=
| OSReadRequest                 (* let mut req = http_conn.read_request().await?; *)
| OSInitFirst                   (* let mut first_response = None; *)
| OSMatchBody (arms : list (body_pat * body_act))      (* match &req.body { arms } *)
| OSAnswer                      (* let response = match first_response { Some(r) => r, None => request_handler(req).await }; *)
| OSMatchKind (arms : list (kind_pat * kind_act))      (* match response.kind { arms } *)
| OSWriteTail (on4xx on5xx : bool) (e : once_err).
    (* if response.is_normal() && (is_4xx || is_5xx) { let _ignored = write_response(&response).await; Err(e) }
       else { write_response(&response).await } *)
Inductive loop_err_act := LAPrint | LAWriteErrorResponse | LAShutdownWrite | LAReturn.
Inductive loop_stmt :=
| LSReturnUnlessReady           (* if !http_conn.is_ready() { return; } *)
| LSOnce                        (* let result = handle_http_conn_once(&mut http_conn, cache dir, small_body_len, handler.clone()).await; *)
| LSMatchResult (err : list loop_err_act).
    (* match result { Ok(()) => {} Err(HttpError::Disconnected) => return, Err(e) => { err } } *)

(* write_http_response (src/response.rs): the statements that build the head *)
Inductive werr_name := WNUnwritable | WNDupContentType | WNDupContentLength | WNDupTransferEncoding | WNDisconnected | WNOther.
Inductive head_stmt :=
| HSRejectUnlessNormal (e : werr_name)        (* if !response.is_normal() { return Err(e); } *)
| HSStatusLine (fmt : list fmt_seg)           (* let mut head_bytes = format!(fmt, code, reason_phrase(code)).into_bytes(); *)
| HSContentType (name : list N) (e : werr_name) (fmt : list fmt_seg)
    (* if response.content_type != ContentType::None {
         if !response.headers.get_all(name).is_empty() { return Err(e); }  write!(head_bytes, fmt, content_type.as_str()) } *)
| HSIfClose (fmt : list fmt_seg)              (* if close { write!(head_bytes, fmt) } *)
| HSRejectIfPresent (name : list N) (e : werr_name)   (* if !response.headers.get_all(name).is_empty() { return Err(e); } *)
| HSFraming (known unknown : list fmt_seg)    (* if let Some(body_len) = response.body.len() { write!(known) } else { write!(unknown) } *)
| HSHeaders (fmt_name : list fmt_seg) (after : list N)
    (* for header in &response.headers { write!(fmt_name, header.name); extend(value as bytes); extend(after) } *)
| HSExtend (t : list N).                      (* head_bytes.extend(t) *)

(* accept_loop (src/accept.rs): the body of its `loop { .. }` *)
Inductive acc_pat := APOk | APTooManyFiles | APErr | APNone.
Inductive acc_act :=
| AAHandToConn                  (* conn_handler.clone()(permit.new_sub(), token, stream, addr); *)
| AALogError                    (* error(..).unwrap();  /  let _ = error(..); *)
| AASleep (ms : N).             (* safina::timer::sleep_for(Duration::from_millis(ms)).await; *)
Inductive acc_stmt :=
| ASWaitTokenOrPermit           (* let opt_token = or(async { Some(token_set.async_wait_token().await) }, async { (&mut permit).await; None }).await; *)
| ASWaitToken                   (* let token = token_set.async_wait_token().await;   (the code before D10) *)
| ASReturnIfNoToken             (* let Some(token) = opt_token else { return; }; *)
| ASReturnIfRevoked             (* if permit.is_revoked() { return; } *)
| ASAcceptOrPermit (arms : list (acc_pat * list acc_act)).
    (* match or(async { Some(AcceptResult::new(listener.accept().await)) }, async { (&mut permit).await; None }).await { arms } *)

(* Head::try_read (src/head.rs) *)
Inductive tr_stmt :=
| TRReadHeadBytes                 (* let head = Self::read_head_bytes(buf)?; *)
| TRSplitLinesTrimCr (sep : N)    (* let mut lines = head.split(|b| *b == sep).map(trim_trailing_cr); *)
| TRFirstLineOr (missing_request_line : bool)
                                  (* let request_line = lines.next().ok_or(HeadError::MissingRequestLine)?; *)
| TRParseRequestLine              (* let (method, url) = Self::parse_request_line(request_line)?; *)
| TRNewHeaders                    (* let mut headers = HeaderList::new(); *)
| TRForLinesParsePush             (* for line in lines { let header = Self::parse_header_line(line)?; headers.push(header); } *)
| TROkSelf.                       (* Ok(Self { method, url, headers }) *)

(* HttpConn::read_body_to_vec / read_body_to_file (src/http_conn.rs): the arms of `match self.read_state` *)
Inductive rb_err := REBodyNotAvailable | REUnsupportedTransferEncoding | REBodyTooLong | REDisconnected
                  | REInvalidContentLength | REOther.
Inductive rb_pat :=
| RPHead                        (* ReadState::Head *)
| RPChunkedOrGzip               (* ReadState::Body { chunked: true, .. } | ReadState::Body { gzip: true, .. } *)
| RPKnownOverMax                (* ReadState::Body { len: Some(len), chunked: false, gzip: false, .. } if len > max_len *)
| RPKnown                       (* ReadState::Body { len: Some(len), expect_continue, chunked: false, gzip: false } *)
| RPUnknown                     (* ReadState::Body { len: None, expect_continue, chunked: false, gzip: false } *)
| RPShutdown.                   (* ReadState::Shutdown *)
Inductive rb_stmt :=
| RSTryFromLen (e : rb_err)     (* let len_usize = usize::try_from(len_u64).map_err(|_| HttpError::e)?; *)
| RSContinueIfExpect            (* if expect_continue { self.write_http_continue().await?; } *)
| RSSetState (head : bool)      (* self.read_state = ReadState::Head (true) / ReadState::Shutdown (false); *)
| RSReadKnown (to_file : bool)  (* let result = read_http_body_to_vec / _to_file(buf.chain(stream), len ..).await; *)
| RSShutdownIfErr               (* if result.is_err() { self.read_state = ReadState::Shutdown; } *)
| RSResult                      (* result *)
| RSReadUnknown (to_file : bool). (* read_http_unsized_body_to_vec / _to_file(buf.chain(stream) ..).await *)
Inductive rb_arm := RAErr (e : rb_err) | RABody (stmts : list rb_stmt).

(* read_http_head (src/head.rs): the body of its loop *)
Inductive rh_err := RHEHeadTooLong | RHEDisconnected | RHETruncated | RHEOther.
Inductive rh_stmt :=
| RHTryRead                       (* match Head::try_read(buf) { Ok(head) => return Ok(head), Err(HeadError::Truncated) => {}
                                       Err(e) => return Err(e.into()), } *)
| RHReturnIfFull (e : rh_err)     (* if buf.writable().is_empty() { return Err(HttpError::e); } *)
| RHRead (empty nonempty : rh_err).
    (* match stream.read(buf.writable()).await { Err(..) | Ok(0) if buf.is_empty() => return Err(HttpError::empty),
         Err(..) | Ok(0) => return Err(HttpError::nonempty), Ok(n) => buf.wrote(n), } *)

(* the task HttpServerBuilder::spawn starts (src/lib.rs) *)
Inductive spawn_stmt :=
| SSAcceptLoop                  (* accept_loop(self.permit, listener, token_set, conn_handler).await; *)
| SSSendStopped.                (* let _ignored = sender.send(()); *)
