(* Base/BytesP.v -- lemmas about Base/Bytes.v *)
From SV Require Import Base.Bytes.

Lemma beq_refl a : beq a a = true.
Proof. induction a as [|x a IH]; cbn [beq]; [reflexivity|]. now rewrite N.eqb_refl, IH. Qed.

Lemma beq_eq a b : beq a b = true <-> a = b.
Proof.
  split; [|intros ->; apply beq_refl].
  revert b; induction a as [|x a IH]; intros [|y b]; cbn [beq]; try discriminate; [reflexivity|].
  rewrite andb_true_iff, N.eqb_eq. intros [-> H]. f_equal. now apply IH.
Qed.

Lemma beq_sym a b : beq a b = beq b a.
Proof.
  revert b; induction a as [|x a IH]; intros [|y b]; cbn [beq]; try reflexivity.
  now rewrite N.eqb_sym, IH.
Qed.

Lemma eq_ic_refl a : eq_ic a a = true.
Proof. apply beq_refl. Qed.

Lemma eq_ic_sym a b : eq_ic a b = eq_ic b a.
Proof. apply beq_sym. Qed.

Lemma eq_ic_trans a b c : eq_ic a b = true -> eq_ic b c = true -> eq_ic a c = true.
Proof. unfold eq_ic. rewrite !beq_eq. congruence. Qed.

Lemma eq_ic_iff a b : eq_ic a b = true <-> map lower a = map lower b.
Proof. apply beq_eq. Qed.

Lemma list_beq_eq {A} (eq : A -> A -> bool) :
  (forall x y, eq x y = true <-> x = y) ->
  forall a b, list_beq eq a b = true <-> a = b.
Proof.
  intros Heq a. induction a as [|x a IH]; intros [|y b]; cbn [list_beq]; split; try discriminate; try reflexivity.
  - rewrite andb_true_iff, Heq, IH. intros [-> ->]; reflexivity.
  - intros [= -> ->]. rewrite andb_true_iff, Heq, IH. split; reflexivity.
Qed.

Lemma starts_with_app p s : starts_with p (p ++ s) = true.
Proof. induction p as [|x p IH]; cbn; [reflexivity|]. now rewrite N.eqb_refl, IH. Qed.

Lemma starts_with_spec p s : starts_with p s = true <-> exists r, s = p ++ r.
Proof.
  revert s; induction p as [|x p IH]; intros s; cbn [starts_with].
  - split; [intros _; exists s; reflexivity|reflexivity].
  - destruct s as [|y s].
    + split; [discriminate|intros [r Hr]; discriminate].
    + rewrite andb_true_iff, N.eqb_eq, IH. split.
      * intros [-> [r ->]]. exists r. reflexivity.
      * intros [r Hr]. cbn in Hr. injection Hr as -> ->. split; [reflexivity|exists r; reflexivity].
Qed.
