(* Base/Bytes.v -- bytes are [N]; a byte string is [list N].  Shared executable definitions. *)
From Coq Require Export List NArith Bool Arith Lia.
Export ListNotations.
Open Scope N_scope.
Open Scope bool_scope.
Arguments N.add : simpl never.
Arguments N.sub : simpl never.
Arguments N.mul : simpl never.
Arguments N.eqb : simpl never.
Arguments N.ltb : simpl never.
Arguments N.leb : simpl never.

Definition bytes := list N.

Fixpoint beq (a b : bytes) : bool :=
  match a, b with
  | [], [] => true
  | x :: a', y :: b' => (x =? y) && beq a' b'
  | _, _ => false
  end.

Definition in_range (lo hi b : N) : bool := (lo <=? b) && (b <=? hi).
Definition is_upper (b : N) : bool := in_range 65 90 b.
Definition is_lower (b : N) : bool := in_range 97 122 b.
Definition is_digit (b : N) : bool := in_range 48 57 b.
Definition is_alpha (b : N) : bool := is_upper b || is_lower b.
Definition is_ascii (b : N) : bool := b <? 128.
Definition is_byte (b : N) : bool := b <? 256.

(* u8::to_ascii_lowercase *)
Definition lower (b : N) : N := if is_upper b then b + 32 else b.
(* str::eq_ignore_ascii_case *)
Definition eq_ic (a b : bytes) : bool := beq (map lower a) (map lower b).

(* RFC 7230 tchar *)
Definition is_tchar (b : N) : bool :=
  is_alpha b || is_digit b ||
  (b =? 33) || (b =? 35) || (b =? 36) || (b =? 37) || (b =? 38) || (b =? 39) || (b =? 42) ||
  (b =? 43) || (b =? 45) || (b =? 46) || (b =? 94) || (b =? 95) || (b =? 96) || (b =? 124) ||
  (b =? 126).
Definition is_token (s : bytes) : bool := negb (match s with [] => true | _ => false end) && forallb is_tchar s.
Definition is_vchar (b : N) : bool := in_range 33 126 b.
Definition is_ows (b : N) : bool := (b =? 32) || (b =? 9).
(* field-value byte: HTAB / SP / VCHAR *)
Definition is_fv_byte (b : N) : bool := (b =? 9) || in_range 32 126 b.

Definition CR : N := 13.
Definition LF : N := 10.
Definition SP : N := 32.
Definition crlf : bytes := [13; 10].

(* decimal rendering of a natural number (Rust Display for unsigned integers) *)
Fixpoint dec_digits_fuel (fuel : nat) (n : N) (acc : bytes) : bytes :=
  match fuel with
  | O => acc
  | S f => let acc' := (48 + n mod 10) :: acc in
           if n <? 10 then acc' else dec_digits_fuel f (n / 10) acc'
  end.
Definition dec (n : N) : bytes := dec_digits_fuel (S (N.to_nat (N.log2 n))) n [].

(* parse 1*DIGIT, unbounded *)
Fixpoint undec_acc (acc : N) (s : bytes) : option N :=
  match s with
  | [] => Some acc
  | c :: t => if is_digit c then undec_acc (10 * acc + (c - 48)) t else None
  end.
Definition undec (s : bytes) : option N :=
  match s with [] => None | _ => undec_acc 0 s end.

Fixpoint starts_with (p s : bytes) : bool :=
  match p, s with
  | [], _ => true
  | x :: p', y :: s' => (x =? y) && starts_with p' s'
  | _ :: _, [] => false
  end.

(* first index at which [needle] occurs in [hay] (util::find_slice) *)
Fixpoint find_slice (needle hay : bytes) : option nat :=
  if starts_with needle hay then Some O else
  match hay with
  | [] => None
  | _ :: t => match find_slice needle t with Some k => Some (S k) | None => None end
  end.

Definition option_beq {A} (eq : A -> A -> bool) (a b : option A) : bool :=
  match a, b with
  | Some x, Some y => eq x y
  | None, None => true
  | _, _ => false
  end.

Fixpoint list_beq {A} (eq : A -> A -> bool) (a b : list A) : bool :=
  match a, b with
  | [], [] => true
  | x :: a', y :: b' => eq x y && list_beq eq a' b'
  | _, _ => false
  end.
