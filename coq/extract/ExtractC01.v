From Coq Require Import Extraction ExtrOcamlBasic.
From SV Require Import Base.Bytes Base.IO Model.Headers Model.Head.
Extraction Language OCaml.
Extraction "c01_model.ml" try_read read_head read_request_head read_seq abstract fb_writable fb_wfb
  oracle_c01 oracle_c01_seq oracle_c01_try fb_shift status_of of_head_error.
