From Coq Require Import Extraction ExtrOcamlBasic.
From SV Require Import Base.Bytes Model.Headers Model.IOSched Spec.ChunkDecode Model.Chunked Spec.RespParse Model.Response.
Extraction Language OCaml.
Extraction "c06_model.ml" write_http_response write_http_response_prefix oracle_c06 reason_text_ok value_ok
  head_ok collides body_sound event_message_bytes piece_max_N parse_response full_wire.
