From Coq Require Import Extraction ExtrOcamlBasic.
From SV Require Import Base.Bytes Model.IOSched Spec.ChunkDecode Model.Chunked.
Extraction Language OCaml.
Extraction "c07_model.ml" copy_chunked oracle_c07 piece_max decode_chunked size_line size_ok.
