From Coq Require Import Extraction ExtrOcamlBasic.
From SV Require Import Base.Bytes Model.Headers Model.IOSched Spec.ChunkDecode Model.Chunked Spec.RespParse Model.Response Model.WriteFail.
Extraction Language OCaml.
Extraction "c08_model.ml" write_http_response conn_write_response conn_exchange oracle_c08_ser oracle_c08_conn conn_session oracle_c08_session prefix_resp_ok
  event_message_bytes piece_max_N closes writer_all.
