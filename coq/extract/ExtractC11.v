From Coq Require Import Extraction ExtrOcamlBasic.
From SV Require Import Base.Bytes Spec.Sse Model.Event.
From SV Require Generated.SourceParams.
Extraction Language OCaml.
Extraction "c11_model.ml" cinit cstep crun wire_bytes is_connected encode_gen event_custom ev_wf
  oracle_c11_modulo oracle_c11_strict kf_c11_missing_blank_line kf_c11_oversize_event pieces_of live_senders
  sse_parse sse_fields expected_of SourceParams.src_chunk_read_hi SourceParams.src_chunk_read_lo.
