From Coq Require Import Extraction ExtrOcamlBasic.
From SV Require Import Base.Bytes Spec.Json8259 Model.Json Model.Log.
Extraction Language OCaml.
Extraction "c17_model.ml" write_jsonl oracle_c17_utf8 utf8_encode utf8_decode line_time line_time_ns
  float_text_ok tags_wf parse_line_utf8 z_of_sign_mag
  sort_tags response_call_tags level_of response_of response_eqb.
