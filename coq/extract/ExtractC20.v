From Coq Require Import Extraction ExtrOcamlBasic.
From SV Require Import Base.Bytes Model.Tables Spec.ErrorClasses Generated.StatusTables.
Extraction Language OCaml.
Extraction "c20_model.ml" ctor_table err_table close_lo close_hi spec_classes lookup_err lookup_class
  respond describe oracle_ctor oracle_err oracle_close in_close_range.
