From Coq Require Import Extraction ExtrOcamlBasic.
From SV Require Import Base.Bytes Base.IO Model.Headers Model.IOSched Model.Response Model.Conn Model.Server Model.ConnInst Spec.ConnSpec Spec.RespParse.
Extraction Language OCaml.
Extraction "c04_model.ml" handle_conn_inst conn_new resp_new resp_text resp_drop mem_body reason_text_ok mk_cin mk_in
  parse_response panic_code panic_text.
