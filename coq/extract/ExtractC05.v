From Coq Require Import Extraction ExtrOcamlBasic.
From SV Require Import Base.Bytes Base.IO Model.Headers Model.IOSched Model.Response Model.Conn Model.Server Model.ConnInst Spec.ConnSpec.
Extraction Language OCaml.
Extraction "c05_model.ml" cstep_inst conn_new oracle_c05_step guard_error is_ready resp_new resp_text resp_drop mem_body
  reason_text_ok mk_cin mk_in collides.
