From Coq Require Import Extraction ExtrOcamlBasic.
From SV Require Import Base.Bytes Model.LogFile.
Extraction Language OCaml.
Extraction "c19_model.ml" post_fix fix18 ow_old_order ow_age set_step plan_ties oracle_set_step kill_names track_entries
  start_id start step restamp oracle_writer ow_suffix ow_current_last ow_file_sizes ow_total is_log_file listing f_size matches oracle_set_creation kf_c19_equal_mtime_name_order.
