From Coq Require Import Extraction ExtrOcamlBasic ZArith.
From SV Require Import Base.Bytes Spec.Civil Spec.Rfc6265 Model.Time Model.Headers Model.Cookie.
Extraction Language OCaml.
Extraction "c15_model.ml" request_cookies request_cookies_of_headers sort_map status_of_malformed_cookie_header
  render_field render_fields fields_ok oracle_request
  cookie_new display_cookie cookie_to_ascii_string with_set_cookies get_all SET_COOKIE
  parse_set_cookie expected_parse cookie_ok oracle_set_cookie oracle_set_cookies
  Z.of_N Z.to_N.
