From Coq Require Import Extraction ExtrOcamlBasic.
From SV Require Import Base.Bytes Model.Headers Proofs.HeadersP Model.Request Spec.Framing.
Extraction Language OCaml.
Extraction "c14_model.ml" hstep oracle_c14_step ascii_try_from all_ascii request_of_head oracle_c14_req.
