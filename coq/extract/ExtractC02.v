From Coq Require Import Extraction ExtrOcamlBasic.
From SV Require Import Base.Bytes Base.IO Model.Headers Model.Head Spec.Rfc7230 Model.RustStr Model.Request Spec.Framing.
Extraction Language OCaml.
Extraction "c02_model.ml" try_read fb_writable crlf2 render_head must_accept canonical_target
  url_canonical_at oracle_c02 oracle_c02_roundtrip request_of_head oracle_c14_req.
