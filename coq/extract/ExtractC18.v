From Coq Require Import Extraction ExtrOcamlBasic.
From SV Require Import Base.Bytes Spec.Json8259 Model.Json Model.Log.
Extraction Language OCaml.
Extraction "c18_model.ml" step spec_step init_state render_event event_line_ok oracle_c18_lines_step res_eqb
  oracle_own_tags act_wf state_wf utf8_encode utf8_decode line_time line_time_ns write_jsonl z_of_sign_mag
  float_text_ok tags_wf.
