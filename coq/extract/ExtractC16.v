From Coq Require Import Extraction ExtrOcamlBasic ZArith.
From SV Require Import Base.Bytes Spec.Civil Model.Time.
Extraction Language OCaml.
Extraction "c16_model.ml" datetime_new datetime_add add_prefix fuel_for new_hinted day_hinted fmt_iso fmt_compact iso8601_utc
  next_day iter_days at_sod epoch_date parse_iso parse_compact valid_dtb secs_fast
  oracle_new oracle_add oracle_iso oracle_iso_at dt_eqb Z.of_N Z.to_N Z.add Z.mul Z.of_nat Z.to_nat.
