From Coq Require Import Extraction ExtrOcamlBasic.
From SV Require Import Base.Bytes Model.Headers Model.RustStr Model.Head Model.Request Spec.Framing.
Extraction Language OCaml.
Extraction "c03_model.ml" run_given oracle_c03_msg obs_continues after_head framing_spec spec_cookies
  classify_cl classify_te field_values n_content_length n_transfer_encoding oracle_pure values_fv handler_log body_to_file_known
  parse_header_lines split_on trim_trailing_cr.
