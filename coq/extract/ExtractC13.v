From Coq Require Import Extraction ExtrOcamlBasic.
From SV Require Import Model.TokenSet Model.Accept.
Extraction Language OCaml.
Extraction "c13_model.ml" pool_model oracle_c12_pool scenario oracle_c12_acc oracle_c13_acc
  run_cmds do_cmd recover_cmds sim_init observe sim_totals sim_closed oracle_c13_conn ts_avail_N.
